'''
Seams the simulator owns (DESIGN.md §3.2).  pyxtuml reaches its environment
only through module-level names, so every seam is a module attribute rebound
on the scratch copy; /repo needs no hook.
'''
import hashlib
import uuid as _uuid


def entropy_value(seed, k):
    '''k-th value of the owned entropy source of a run: a valid version-4 UUID as int.'''
    d = hashlib.sha256(('entropy:%d:%d' % (seed, k)).encode()).digest()
    return _uuid.UUID(int=int.from_bytes(d[:16], 'big'), version=4).int


class EntropyShim(object):
    '''Stands in for the `uuid` module inside xtuml.tools.'''
    UUID = _uuid.UUID

    def __init__(self):
        self.seed = 0
        self.k = 0

    def reset(self, seed):
        self.seed = seed
        self.k = 0

    def uuid4(self):
        v = entropy_value(self.seed, self.k)
        self.k += 1
        return _uuid.UUID(int=v)

    def __getattr__(self, name):
        return getattr(_uuid, name)


_entropy = None


def install_entropy():
    global _entropy
    import xtuml.tools
    if _entropy is None or xtuml.tools.uuid is not _entropy:
        _entropy = EntropyShim()
        xtuml.tools.uuid = _entropy
    return _entropy


_through_seam = {}


def uuid_through_seam(xtuml):
    '''
    Does the UUIDGenerator of the library under test draw its entropy from the owned uuid.uuid4?  Probed once per
    process.  When it does not (a library that reads os.urandom, secrets or the random module), the checks fall
    back to the opaque mode below instead of reporting every id as "not the next value of the seam".
    '''
    key = id(xtuml)
    if key not in _through_seam:
        ent = install_entropy()
        saved = (ent.seed, ent.k)
        ent.reset(987654321)
        try:
            g = xtuml.UUIDGenerator()
            got = [g.next(), g.next()]
            _through_seam[key] = got == [entropy_value(987654321, 0), entropy_value(987654321, 1)]
        except Exception:
            _through_seam[key] = True       # not this probe's business: the checks will meet the exception themselves
        finally:
            ent.seed, ent.k = saved
    return _through_seam[key]


class Tape(object):
    '''
    Opaque mode: the ids come from the library's own source of entropy, read lazily onto a tape that the real
    generator and the reference generator share by position.  What is demanded of the tape is what the property
    demands of the ids: never null, never a repetition.
    '''
    def __init__(self, source):
        self.source = source
        self.values = []
        self.seen = set()
        self.bad = None

    def get(self, k):
        while len(self.values) <= k:
            v = self.source()
            if self.bad is None:
                if v is None or v == 0:
                    self.bad = 'the generator handed out the null id as its value number %d' % len(self.values)
                elif v in self.seen:
                    self.bad = ('the generator handed out %r a second time (value number %d was value number %d before)'
                                % (v, len(self.values), self.values.index(v)))
            self.seen.add(v)
            self.values.append(v)
        return self.values[k]


LAST_TAPE = [None]


def tape_generator(xtuml):
    '''(real generator reading the tape, tape); the generator logic (peek / next) stays the library's own'''
    source_gen = xtuml.UUIDGenerator()
    tape = Tape(lambda: xtuml.UUIDGenerator.readfunc(source_gen))

    class TapeGenerator(xtuml.UUIDGenerator):
        def __init__(self):
            self._k = 0
            xtuml.UUIDGenerator.__init__(self)

        def readfunc(self):
            v = tape.get(self._k)
            self._k += 1
            return v
    LAST_TAPE[0] = tape
    return TapeGenerator(), tape


class StubClock(object):
    '''No property reads time; the stub only guarantees that no run can observe real time.'''
    def __init__(self):
        self.now = 1000000000.0

    def time(self):
        self.now += 0.001
        return self.now


def install_clock():
    try:
        import bridgepoint.external_entities as ee
    except Exception:
        return None
    clock = StubClock()

    class _T(object):
        def __getattr__(self, name):
            import time as _t
            return getattr(_t, name)
    t = _T()
    t.time = clock.time
    if hasattr(ee, 'time'):
        ee.time = t
    return clock
