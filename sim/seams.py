'''
Seams the simulator owns (DESIGN.md §3.2).  pyxtuml reaches its environment
only through module-level names, so every seam is a module attribute rebound
on the scratch copy; /repo needs no hook.
'''
import hashlib
import uuid as _uuid


def entropy_value(seed, k):
    '''k-th value of the owned entropy source of a run: a valid version-4 UUID as int.'''
    d = hashlib.sha256(('entropy:%d:%d' % (seed, k)).encode()).digest()
    return _uuid.UUID(int=int.from_bytes(d[:16], 'big'), version=4).int


class EntropyShim(object):
    '''Stands in for the `uuid` module inside xtuml.tools.'''
    UUID = _uuid.UUID

    def __init__(self):
        self.seed = 0
        self.k = 0

    def reset(self, seed):
        self.seed = seed
        self.k = 0

    def uuid4(self):
        v = entropy_value(self.seed, self.k)
        self.k += 1
        return _uuid.UUID(int=v)

    def __getattr__(self, name):
        return getattr(_uuid, name)


_entropy = None


def install_entropy():
    global _entropy
    import xtuml.tools
    if _entropy is None or xtuml.tools.uuid is not _entropy:
        _entropy = EntropyShim()
        xtuml.tools.uuid = _entropy
    return _entropy


class StubClock(object):
    '''No property reads time; the stub only guarantees that no run can observe real time.'''
    def __init__(self):
        self.now = 1000000000.0

    def time(self):
        self.now += 0.001
        return self.now


def install_clock():
    try:
        import bridgepoint.external_entities as ee
    except Exception:
        return None
    clock = StubClock()

    class _T(object):
        def __getattr__(self, name):
            import time as _t
            return getattr(_t, name)
    t = _T()
    t.time = clock.time
    if hasattr(ee, 'time'):
        ee.time = t
    return clock
