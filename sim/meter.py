'''
Logical time (DESIGN.md §3.6): a step meter built on sys.monitoring LINE
events inside the system under test, with a budget that raises SimStall *from
inside the metered code* when exceeded -- so "does not terminate" is decided by
a count that replays exactly, not by a clock.  A wall-clock alarm is the
backstop for loops the line meter cannot see (regex back-tracking in C).
'''
import os
import signal
import sys


class SimStall(BaseException):
    '''Raised inside the system under test when a step or wall budget is exhausted.'''
    def __init__(self, kind, budget):
        BaseException.__init__(self, '%s budget %s exhausted' % (kind, budget))
        self.kind = kind
        self.budget = budget


_mon = getattr(sys, 'monitoring', None)
_TOOL = 4  # a free tool id (0 debugger, 1 coverage, 2 profiler, 5 optimizer)


class Meter(object):
    def __init__(self, prefixes):
        self.prefixes = tuple(os.path.realpath(p) for p in prefixes)
        self.count = 0
        self.total = 0
        self.budget = None
        self.active = False
        self._cache = {}
        self.available = _mon is not None
        if self.available:
            try:
                _mon.use_tool_id(_TOOL, 'verif-meter')
            except ValueError:
                pass
            _mon.register_callback(_TOOL, _mon.events.LINE, self._line)

    def _mine(self, code):
        r = self._cache.get(code)
        if r is None:
            fn = code.co_filename
            r = os.path.realpath(fn).startswith(self.prefixes) if fn and fn[0] != '<' else False
            self._cache[code] = r
        return r

    def _line(self, code, lineno):
        if not self._mine(code):
            return _mon.DISABLE
        self.count += 1
        if self.budget is not None and self.count > self.budget:
            b = self.budget
            self.budget = None      # raise once
            raise SimStall('step', b)

    def start(self, budget=None):
        self.count = 0
        self.budget = budget
        if self.available:
            self.active = True
            _mon.set_events(_TOOL, _mon.events.LINE)

    def stop(self):
        if self.available and self.active:
            _mon.set_events(_TOOL, 0)
            self.active = False
        self.budget = None
        self.total += self.count
        return self.count


class WallGuard(object):
    '''
    Backstop only: SIGALRM after `seconds` raises SimStall('wall').  A wall
    stall is never reported before it is confirmed in a fresh process with a
    three times larger budget (see runner.confirm_replay).
    '''
    def __init__(self):
        self.fired = False

    def _handler(self, signum, frame):
        self.fired = True
        raise SimStall('wall', self.seconds)

    def arm(self, seconds):
        self.seconds = seconds
        self.fired = False
        self._old = signal.signal(signal.SIGALRM, self._handler)
        signal.setitimer(signal.ITIMER_REAL, seconds)

    def disarm(self):
        signal.setitimer(signal.ITIMER_REAL, 0)
        signal.signal(signal.SIGALRM, self._old)
