'''
Scratch import of /repo's packages (DESIGN.md §6.1, §6.2).

PLY is used with optimize=1 and therefore reuses whatever __*tab.py files lie
next to the sources without comparing the grammar signature.  Every check
copies xtuml/ and bridgepoint/ from the *current working tree* of /repo into
a private directory (without the generated tables), removes the editable
finder that would resolve submodules back to /repo, imports from the copy and
so forces PLY to regenerate the tables from the sources under test.
'''
import atexit
import os
import shutil
import sys
import tempfile

REPO = os.environ.get('VERIF_REPO', '/repo')
_scratch = None


def _ignore(_dir, names):
    return [n for n in names
            if n == '__pycache__' or n.endswith('.pyc') or
            (n.startswith('__') and n.endswith('tab.py'))]


def scratch_dir():
    return _scratch


def prepare(repo=None, regenerate_oal=True):
    '''
    Copy the packages, fix sys.path / sys.meta_path, import them and let PLY
    regenerate all tables.  Returns the scratch directory.  Idempotent.
    '''
    global _scratch
    if _scratch:
        return _scratch
    repo = repo or REPO
    base = os.environ.get('VERIF_SCRATCH_BASE') or tempfile.gettempdir()
    _scratch = tempfile.mkdtemp(prefix='pyxtuml-verif-%d-' % os.getpid(), dir=base)
    owner = os.getpid()

    def _cleanup():
        # forked workers inherit the atexit hook; only the creator removes
        if os.getpid() == owner:
            shutil.rmtree(_scratch, ignore_errors=True)
    atexit.register(_cleanup)

    for pkg in ('xtuml', 'bridgepoint'):
        shutil.copytree(os.path.join(repo, pkg), os.path.join(_scratch, pkg),
                        ignore=_ignore)

    sys.dont_write_bytecode = True
    sys.meta_path[:] = [f for f in sys.meta_path
                        if 'editable' not in repr(f).lower()]
    for name in list(sys.modules):
        if name.split('.')[0] in ('xtuml', 'bridgepoint'):
            del sys.modules[name]
    sys.path[:] = [p for p in sys.path
                   if os.path.realpath(p or '.') != os.path.realpath(repo)]
    sys.path.insert(0, _scratch)

    import logging
    logging.getLogger().addHandler(logging.NullHandler())
    for name in ('xtuml.load', 'xtuml.meta', 'xtuml.persist', 'consistency_check',
                 'bridgepoint.oal', 'bridgepoint.ooaofooa', 'ply'):
        lg = logging.getLogger(name)
        lg.propagate = False
        lg.addHandler(logging.NullHandler())
        lg.setLevel(logging.CRITICAL + 1)

    import xtuml
    xtuml.ModelLoader().input('')           # generates the SQL tables
    if regenerate_oal:
        import bridgepoint.oal
        bridgepoint.oal.OALParser().text_input('return;\n')

    check_origin()
    return _scratch


def check_origin():
    '''Every module of the system under test must come from the scratch copy.'''
    real = os.path.realpath(_scratch)
    for name, mod in list(sys.modules.items()):
        if name.split('.')[0] in ('xtuml', 'bridgepoint'):
            f = getattr(mod, '__file__', None)
            if f and not os.path.realpath(f).startswith(real):
                raise RuntimeError('HARNESS-ERROR: %s imported from %s, not scratch' % (name, f))


def cleanup():
    global _scratch
    if _scratch:
        shutil.rmtree(_scratch, ignore_errors=True)
        _scratch = None
