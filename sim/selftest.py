'''
Self-tests of the machinery (DESIGN.md §7).

  vcheck selftest determinism [--runs N] [IDs...]
      every property: the first N runs of the quick tier executed in four fresh
      interpreters (PYTHONHASHSEED 0, 1, 2 and 'random'), twice with the same
      hash seed -- all digests per property must be equal.  Also runs the batch
      with 1 and with 16 worker processes and compares the batch digests.

  vcheck selftest sensitivity [seed ids...]
      every change under seeded/: apply to /repo, run the owning property's
      quick check, undo; the check must exit 1 with a confirmed replay.
      (Needs a clean /repo working tree; restores it even on failure.)

  vcheck selftest replays
      every replay under findings/ must NOT reproduce on the current tree
      (fixed findings) unless its finding is listed as known.
'''
import json
import os
import re
import subprocess
import sys
import time

VERIF = os.path.dirname(os.path.dirname(os.path.abspath(__file__)))
VCHECK = os.path.join(VERIF, 'vcheck')


def _digest(prop, seed, count, hashseed):
    env = dict(os.environ)
    env['PYTHONHASHSEED'] = str(hashseed)
    p = subprocess.run([sys.executable, VCHECK, 'digest', prop, '--tier', 'quick', '--seed', str(seed),
                        '--first', '0', '--count', str(count)], stdout=subprocess.PIPE, stderr=subprocess.STDOUT,
                       env=env, universal_newlines=True)
    m = re.search(r'^DIGEST (\w+)$', p.stdout, re.M)
    return m.group(1) if m else 'ERROR: ' + p.stdout[-300:]


def _batch_digest(prop, seed, runs, jobs):
    p = subprocess.run([sys.executable, VCHECK, prop, '--seed', str(seed), '--runs', str(runs), '--jobs', str(jobs),
                        '--no-evidence', '--no-determinism'], stdout=subprocess.PIPE, stderr=subprocess.STDOUT,
                       universal_newlines=True, cwd=VERIF)
    m = re.search(r'digest=(\w+)', p.stdout)
    return m.group(1) if m else 'ERROR: ' + p.stdout[-300:]


def determinism(by_prop, argv):
    runs = 24
    ids = []
    it = iter(argv)
    for a in it:
        if a == '--runs':
            runs = int(next(it))
        else:
            ids.append(a)
    ids = ids or sorted(by_prop)
    bad = 0
    from concurrent.futures import ThreadPoolExecutor
    for prop in ids:
        t0 = time.time()
        jobs = [(prop, 4242, runs, hs) for hs in (0, 1, 2, 'random', 1)]
        with ThreadPoolExecutor(max_workers=5) as ex:
            ds = list(ex.map(lambda a: _digest(*a), jobs))
        b1 = _batch_digest(prop, 4242, max(runs, 32), 1)
        b16 = _batch_digest(prop, 4242, max(runs, 32), 16)
        ok = len(set(ds)) == 1 and not ds[0].startswith('ERROR') and b1 == b16 and not b1.startswith('ERROR')
        print('%s %s  hashseeds(0,1,2,random,1) %s  batch digest jobs=1 %s jobs=16 %s  (%.0fs)'
              % ('OK  ' if ok else 'FAIL', prop, 'equal ' + ds[0][:12] if len(set(ds)) == 1 else ds, b1[:12], b16[:12],
                 time.time() - t0))
        bad += not ok
    return 1 if bad else 0


def sensitivity(by_prop, argv):
    root = os.path.join(VERIF, 'seeded')
    ids = argv or sorted(os.listdir(root))
    bad = 0
    for sid in ids:
        d = os.path.join(root, sid)
        with open(os.path.join(d, 'meta.json')) as f:
            meta = json.load(f)
        if meta.get('retired'):
            print('RETIRED %s %s' % (meta['property'], sid))
            continue
        if meta.get('outside_claim'):
            print('OUTSIDE %s %s: %s' % (meta['property'], sid, meta['outside_claim'][:110]))
            continue
        if meta.get('caught_by'):
            meta['property'] = meta['caught_by']
        p = subprocess.run([sys.executable, os.path.join(VERIF, 'tools', 'mutest.py'), meta['property'],
                            os.path.join(d, 'patch.diff')], stdout=subprocess.PIPE, stderr=subprocess.STDOUT,
                           universal_newlines=True)
        first = (p.stdout.strip().splitlines() or ['?'])
        line = [l for l in first if l.startswith(('DETECTED', 'MISSED', 'ERROR'))]
        print(line[0] if line else first[0])
        bad += p.returncode != 0
    return 1 if bad else 0


def replays(by_prop, argv):
    with open(os.path.join(VERIF, 'known_findings.json')) as f:
        findings = json.load(f)['findings']
    bad = 0
    for e in findings:
        path = os.path.join(VERIF, e['replay'])
        p = subprocess.run([sys.executable, VCHECK, 'replay', path], stdout=subprocess.PIPE, stderr=subprocess.STDOUT,
                           universal_newlines=True)
        reproduced = p.returncode == 1
        want = e['status'] == 'known'
        ok = reproduced == want
        note = ''
        if e['status'] == 'fixed' and e.get('commit'):
            # the replay must still reproduce on the tree just before its fix (scratch worktree, /repo untouched)
            import tempfile
            wt = tempfile.mkdtemp(prefix='verif-prefix-')
            os.rmdir(wt)
            r = subprocess.run(['git', '-C', '/repo', 'worktree', 'add', '-q', '--detach', wt, e['commit'] + '^'],
                               stdout=subprocess.PIPE, stderr=subprocess.STDOUT, universal_newlines=True)
            if r.returncode == 0:
                env = dict(os.environ, VERIF_REPO=wt)
                q = subprocess.run([sys.executable, VCHECK, 'replay', path], stdout=subprocess.PIPE,
                                   stderr=subprocess.STDOUT, universal_newlines=True, env=env)
                subprocess.run(['git', '-C', '/repo', 'worktree', 'remove', '--force', wt], stdout=subprocess.PIPE,
                               stderr=subprocess.STDOUT)
                subprocess.run(['git', '-C', '/repo', 'worktree', 'prune'])
                before = q.returncode == 1
                note = '; on %s^ it %s' % (e['commit'], 'reproduces' if before else 'DOES NOT reproduce')
                ok = ok and before
        print('%s %s %s: %s%s' % ('OK  ' if ok else 'FAIL', e['property'], e['status'],
                                  'reproduces' if reproduced else 'does not reproduce', note))
        bad += not ok
    return 1 if bad else 0


def main(by_prop, argv):
    if not argv:
        print(__doc__)
        return 2
    cmd = argv[0]
    if cmd == 'determinism':
        return determinism(by_prop, argv[1:])
    if cmd == 'sensitivity':
        return sensitivity(by_prop, argv[1:])
    if cmd == 'replays':
        return replays(by_prop, argv[1:])
    print(__doc__)
    return 2
