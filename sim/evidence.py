'''
evidence/<id>.json writer (DESIGN.md §8).  Every number is measured on this
run.  The document is checked structurally here and, when a python with
jsonschema is available (python3-vt), against EVIDENCE.schema.json as well.
'''
import json
import os
import shutil
import subprocess

VERIF = os.path.dirname(os.path.dirname(os.path.abspath(__file__)))
SCHEMA = '/root/.vp/EVIDENCE.schema.json'


def write(engine, prop, tier, seed, agg, wall, jobs, batch_digest, determinism,
          reported, known_hits, truncated, reach_missing):
    info = engine.describe(prop)
    samples = agg['samples'][:3]
    if not samples:
        samples = [{'note': 'no violation-free run recorded as sample'}]
    coverage = {
        'evaluations': agg['steps'] if info.get('evaluations') == 'steps' else agg['n'],
        'distinct_nontrivial': len(agg['states']),
        'rule': info['rule'],
        'samples': samples,
        'exhaustive': (bool(info.get('exhaustive', False)) or
                       (bool(info.get('exhaustive_in_thorough')) and tier == 'thorough')) and not truncated,
        'simulated_runs': agg['n'],
        'nontrivial_runs': agg['nontrivial_runs'],
        'logical_steps': agg['steps'],
        'metered_line_events': agg['lines'],
        'simulated_time': '%d logical steps (API calls / fault sites); %d metered interpreter line events'
                          % (agg['steps'], agg['lines']),
        'runs_per_hour': int(agg['n'] / wall * 3600) if wall > 0 else 0,
        'seeds_per_hour': int(agg['n'] / wall * 3600) if wall > 0 else 0,
        'worker_processes': jobs,
        'faults_fired': dict(sorted(agg['faults'].items())),
        'reach_probes': dict(sorted(agg['probes'].items())),
        'reach_missing': reach_missing,
        'components': info['components'],
        'batch_digest': batch_digest,
        'determinism_probe': determinism,
        'truncated_by_wall_cap': truncated,
        'violations_reported': reported,
        'known_finding_hits': dict(known_hits),
    }
    doc = {
        'property_id': prop,
        'tier': tier,
        'seed': seed,
        'level': info['level'],
        'coverage': coverage,
        'assumptions': info.get('assumptions', []),
        'wall_s': round(wall, 2),
        'violations': len(reported),
    }
    problems = structural_check(doc)
    path = os.path.join(VERIF, 'evidence', '%s.json' % prop)
    os.makedirs(os.path.dirname(path), exist_ok=True)
    tmp = path + '.tmp'
    with open(tmp, 'w') as f:
        json.dump(doc, f, indent=1, sort_keys=True, default=str)
        f.write('\n')
    os.replace(tmp, path)
    problems += schema_check(path)
    for p in problems:
        print('EVIDENCE-PROBLEM %s: %s' % (prop, p))
    return path


def structural_check(doc):
    bad = []
    for k in ('property_id', 'tier', 'seed', 'level', 'coverage', 'wall_s'):
        if k not in doc:
            bad.append('missing %s' % k)
    c = doc.get('coverage', {})
    if not isinstance(c.get('evaluations'), int) or c.get('evaluations', 0) < 1:
        bad.append('evaluations < 1')
    if not isinstance(c.get('distinct_nontrivial'), int) or c.get('distinct_nontrivial', 0) < 2:
        bad.append('distinct_nontrivial < 2')
    if not isinstance(c.get('rule'), str):
        bad.append('rule missing')
    if not isinstance(c.get('samples'), list) or not c.get('samples'):
        bad.append('samples empty')
    return bad


def schema_check(path):
    py = shutil.which('python3-vt')
    if not py or not os.path.exists(SCHEMA):
        return []
    code = ('import json,sys,jsonschema;'
            'jsonschema.validate(json.load(open(sys.argv[1])), json.load(open(sys.argv[2])))')
    try:
        p = subprocess.run([py, '-c', code, path, SCHEMA], stdout=subprocess.PIPE,
                           stderr=subprocess.STDOUT, timeout=60, universal_newlines=True)
    except Exception as e:      # the validator is a convenience, not a dependency
        return []
    if p.returncode != 0:
        return ['schema validation failed: %s' % p.stdout.strip().splitlines()[-1:]]
    return []
