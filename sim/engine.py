'''Base class for the engines: the interface sim.runner relies on.'''
import hashlib
import json


def stable_hash(obj):
    '''48-bit hash that does not depend on PYTHONHASHSEED.'''
    return int.from_bytes(hashlib.blake2b(repr(obj).encode('utf-8', 'backslashreplace'), digest_size=6).digest(), 'big')


def canon(obj):
    return json.dumps(obj, sort_keys=True, default=repr, separators=(',', ':'))


class Log(object):
    '''Event log of one run; its SHA-256 is the run digest (DESIGN.md §3.4).'''
    def __init__(self):
        self._m = hashlib.sha256()
        self.n = 0

    def event(self, *parts):
        self._m.update(canon(parts).encode('utf-8', 'backslashreplace'))
        self._m.update(b'\n')
        self.n += 1

    def hexdigest(self):
        return self._m.hexdigest()


class Violation(Exception):
    '''Raised by an oracle inside execute(); turned into a result there.'''
    def __init__(self, oracle, detail, signature=None):
        Exception.__init__(self, '%s: %s' % (oracle, detail))
        self.oracle = oracle
        self.detail = detail
        self.signature = signature or oracle

    def as_dict(self, step):
        return {'oracle': self.oracle, 'step': step, 'detail': self.detail[:1500],
                'signature': self.signature}


class Engine(object):
    name = None
    props = ()
    WALL_S = 10.0     # per-run soft wall limit (SimStall raised inside the run)

    def setup(self, prop, tier):
        pass

    def plan(self, prop, tier):
        raise NotImplementedError

    def generate(self, prop, seed, tier, idx):
        raise NotImplementedError

    def execute(self, case):
        raise NotImplementedError

    def describe(self, prop):
        raise NotImplementedError

    def sample(self, case):
        ops = case.get('ops', [])
        return {'seed': case.get('seed'), 'cfg': case.get('cfg'), 'ops': ops[:40],
                'ops_total': len(ops)}

    def relax_for_confirmation(self, case):
        '''Fresh-process confirmation of wall stalls runs with 3x the wall budget.'''
        if 'wall_s' in case.get('cfg', {}):
            case = dict(case)
            case['cfg'] = dict(case['cfg'])
            case['cfg']['wall_s'] = case['cfg']['wall_s'] * 3
        return case

    def reach_missing(self, prop, tier, probes, faults):
        return []
