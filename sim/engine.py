'''Base class for the engines: the interface sim.runner relies on.'''
import hashlib
import json


def stable_hash(obj):
    '''48-bit hash that does not depend on PYTHONHASHSEED.'''
    return int.from_bytes(hashlib.blake2b(repr(obj).encode('utf-8', 'backslashreplace'), digest_size=6).digest(), 'big')


def canon(obj):
    return json.dumps(obj, sort_keys=True, default=repr, separators=(',', ':'))


class Log(object):
    '''Event log of one run; its SHA-256 is the run digest (DESIGN.md §3.4).'''
    def __init__(self):
        self._m = hashlib.sha256()
        self.n = 0

    def event(self, *parts):
        self._m.update(canon(parts).encode('utf-8', 'backslashreplace'))
        self._m.update(b'\n')
        self.n += 1

    def hexdigest(self):
        return self._m.hexdigest()


class Violation(Exception):
    '''Raised by an oracle inside execute(); turned into a result there.'''
    def __init__(self, oracle, detail, signature=None):
        Exception.__init__(self, '%s: %s' % (oracle, detail))
        self.oracle = oracle
        self.detail = detail
        self.signature = signature or oracle

    def as_dict(self, step):
        return {'oracle': self.oracle, 'step': step, 'detail': self.detail[:1500],
                'signature': self.signature}


class Engine(object):
    name = None
    props = ()
    WALL_S = 10.0     # per-run soft wall limit (SimStall raised inside the run)

    def setup(self, prop, tier):
        pass

    def plan(self, prop, tier):
        raise NotImplementedError

    def generate(self, prop, seed, tier, idx):
        raise NotImplementedError

    def execute(self, case):
        raise NotImplementedError

    def describe(self, prop):
        raise NotImplementedError

    def sample(self, case):
        ops = case.get('ops', [])
        return {'seed': case.get('seed'), 'cfg': case.get('cfg'), 'ops': ops[:40],
                'ops_total': len(ops)}

    def relax_for_confirmation(self, case):
        '''Fresh-process confirmation of wall stalls runs with 3x the wall budget.'''
        if 'wall_s' in case.get('cfg', {}):
            case = dict(case)
            case['cfg'] = dict(case['cfg'])
            case['cfg']['wall_s'] = case['cfg']['wall_s'] * 3
        return case

    def reach_missing(self, prop, tier, probes, faults):
        return []


class MultiEngine(Engine):
    '''
    One property decided by several engines: run index i goes to engine
    i mod n; the case records which engine made it, so replay is unambiguous.
    '''
    def __init__(self, name, props, parts):
        self.name = name
        self.props = props
        self.parts = parts

    def setup(self, prop, tier):
        for e in self.parts:
            e.setup(prop, tier)

    def plan(self, prop, tier):
        plans = [e.plan(prop, tier) for e in self.parts]
        p = dict(plans[0])
        p['runs'] = sum(pl['runs'] for pl in plans) // len(plans)
        return p

    def generate(self, prop, seed, tier, idx):
        e = self.parts[idx % len(self.parts)]
        case = e.generate(prop, seed, tier, idx // len(self.parts))
        case['engine'] = e.name
        case['multi'] = self.name
        return case

    def execute(self, case):
        for e in self.parts:
            if e.name == case['engine']:
                return e.execute(case)
        raise ValueError('no part engine %r' % case['engine'])

    def sample(self, case):
        for e in self.parts:
            if e.name == case['engine']:
                return e.sample(case)

    def describe(self, prop):
        ds = [e.describe(prop) for e in self.parts]
        d = dict(ds[0])
        d['rule'] = ' || '.join('[%s] %s' % (e.name, x['rule']) for e, x in zip(self.parts, ds))
        comp = {'real': [], 'stub': [], 'oracle': []}
        for x in ds:
            for k in comp:
                for item in x['components'].get(k, []):
                    if item not in comp[k]:
                        comp[k].append(item)
        d['components'] = comp
        d['assumptions'] = sorted(set(a for x in ds for a in x.get('assumptions', [])))
        return d

    def relax_for_confirmation(self, case):
        for e in self.parts:
            if e.name == case['engine']:
                return e.relax_for_confirmation(case)
        return case

    def reach_missing(self, prop, tier, probes, faults):
        out = []
        for e in self.parts:
            out += e.reach_missing(prop, tier, probes, faults)
        return out
