'''
Minimisation (DESIGN.md §3.8): ddmin over the recorded operation / fault list,
then single-op removal to 1-minimality, then engine-specific argument
simplification.  A candidate is kept only if it fails with the *same oracle*.
Every candidate is executed in a fresh world (execute() builds one per call).
'''
import copy
import time


def _fails(engine, case, oracle, stats):
    stats['tests'] += 1
    try:
        res = engine.execute(case)
    except Exception:
        return None
    v = res.get('violation')
    if v and (v['oracle'], v.get('signature')) == oracle:
        return v
    return None


def minimise(engine, case, violation, budget_s=90):
    t_end = time.time() + budget_s
    oracle = (violation['oracle'], violation.get('signature'))
    stats = {'tests': 0}
    best = copy.deepcopy(case)
    best_v = violation
    key = engine.shrink_key(case) if hasattr(engine, 'shrink_key') else 'ops'
    ops = list(best.get(key, []))

    def attempt(cand_ops):
        cand = dict(best)
        cand[key] = cand_ops
        return _fails(engine, cand, oracle, stats)

    # cut the tail after the failing step first (cheap and usually big)
    step = violation.get('step')
    if isinstance(step, int) and 0 <= step < len(ops) - 1:
        v = attempt(ops[:step + 1])
        if v:
            ops = ops[:step + 1]
            best_v = v

    # ddmin
    n = 2
    while len(ops) >= 2 and time.time() < t_end:
        size = max(1, len(ops) // n)
        chunks = [ops[i:i + size] for i in range(0, len(ops), size)]
        reduced = False
        for i in range(len(chunks)):
            if time.time() > t_end:
                break
            cand = [op for j, c in enumerate(chunks) if j != i for op in c]
            v = attempt(cand)
            if v:
                ops = cand
                best_v = v
                n = max(n - 1, 2)
                reduced = True
                break
        if not reduced:
            if size == 1:
                break
            n = min(n * 2, len(ops))

    # 1-minimality
    changed = True
    while changed and time.time() < t_end:
        changed = False
        for i in range(len(ops) - 1, -1, -1):
            if time.time() > t_end:
                break
            cand = ops[:i] + ops[i + 1:]
            v = attempt(cand)
            if v:
                ops = cand
                best_v = v
                changed = True

    best[key] = ops

    # argument simplification offered by the engine
    if hasattr(engine, 'simplify'):
        progress = True
        while progress and time.time() < t_end:
            progress = False
            for cand in engine.simplify(best):
                if time.time() > t_end:
                    break
                v = _fails(engine, cand, oracle, stats)
                if v:
                    best = cand
                    best_v = v
                    progress = True
                    break

    return best, best_v, stats['tests']
