'''
One integer decides everything (DESIGN.md §3.1).

run_seed = H(VERIF_SEED, property, run index); every named stream is an
independent random.Random derived from the run seed and the stream name, so a
draw added to one stream never shifts another.
'''
import hashlib
import random


def h64(*parts):
    m = hashlib.sha256()
    for p in parts:
        m.update(repr(p).encode('utf-8'))
        m.update(b'\x00')
    return int.from_bytes(m.digest()[:8], 'big')


def run_seed(base_seed, prop, index):
    return h64('run', int(base_seed), prop, int(index))


class Streams(object):
    def __init__(self, seed):
        self.seed = seed
        self._streams = {}

    def __getitem__(self, name):
        if name not in self._streams:
            self._streams[name] = random.Random(h64('stream', self.seed, name))
        return self._streams[name]

    def __getattr__(self, name):
        if name.startswith('_'):
            raise AttributeError(name)
        return self[name]


def weighted(rng, table):
    '''table: list of (weight, item); deterministic given rng.'''
    total = sum(w for w, _ in table)
    x = rng.random() * total
    acc = 0.0
    for w, item in table:
        acc += w
        if x < acc:
            return item
    return table[-1][1]
