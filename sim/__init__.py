'''Deterministic-simulation support code for the pyxtuml checks (see DESIGN.md §3).'''
