'''
Batch driver shared by every check (DESIGN.md §3, §8).

  generate(seed)  -> case   (pure function of the seed; JSON-serialisable)
  execute(case)   -> result (pure function of the case and of /repo's code)

Runs are spread over forked worker processes; the parent folds the results,
minimises and confirms violations, writes the replay and evidence files and
prints the VIOLATION / KNOWN-FINDING lines.

Exit status: 0 property held on everything explored; 1 violation (with a
confirmed replay file); 2 harness error (never to be mistaken for either).
'''
import argparse
import collections
import concurrent.futures
import faulthandler
import hashlib
import json
import multiprocessing
import os
import re
import subprocess
import sys
import time
import traceback

from . import build
from . import rng as simrng
from . import shrink as simshrink
from . import evidence as simevidence

VERIF = os.path.dirname(os.path.dirname(os.path.abspath(__file__)))
OUT = os.path.join(VERIF, 'out')
KNOWN = os.path.join(VERIF, 'known_findings.json')

DEFAULT_SEED = {'quick': 20260924, 'thorough': 20260925}
HARD_S = 60.0       # per-run hard wall limit (process killed): backstop for hangs inside C code


class HarnessError(Exception):
    pass


# ----------------------------------------------------------------------------
# worker side
# ----------------------------------------------------------------------------
_W = {}
_HIST = []      # every run index this worker process has executed so far, in order


def _work(chunk):
    engine, prop, tier, base_seed, hang_s = (_W['engine'], _W['prop'], _W['tier'],
                                             _W['seed'], _W['hang_s'])
    inflight = os.path.join(_W['inflight_dir'], 'w%d' % os.getpid())
    out = {
        'n': 0, 'steps': 0, 'lines': 0, 'nontrivial_runs': 0,
        'faults': collections.Counter(), 'probes': collections.Counter(),
        'states': set(), 'digests': [], 'violations': [], 'samples': [],
        'errors': [],
    }
    for idx in chunk:
        seed = simrng.run_seed(base_seed, prop, idx)
        with open(inflight, 'w') as f:
            f.write('%d\n' % idx)
        faulthandler.dump_traceback_later(hang_s, exit=True)
        _HIST.append(idx)
        try:
            case = engine.generate(prop, seed, tier, idx)
            res = engine.execute(case)
        except Exception:
            out['errors'].append((idx, traceback.format_exc()))
            continue
        out['n'] += 1
        out['steps'] += res.get('steps', 0)
        out['lines'] += res.get('lines', 0)
        out['faults'].update(res.get('faults', {}))
        out['probes'].update(res.get('probes', {}))
        out['states'].update(res.get('states', ()))
        if res.get('nontrivial'):
            out['nontrivial_runs'] += 1
        out['digests'].append((idx, res['digest'][:16]))
        if res.get('violation'):
            if len(out['violations']) < 8:
                out['violations'].append((idx, case, res['violation'], list(_HIST)))
            else:
                out['violations'].append((idx, None, res['violation'], None))
        elif idx < 2:
            out['samples'].append(engine.sample(case))
        if res.get('violation') and res['violation']['oracle'] in ('stall', 'hang'):
            # every further run of the chunk is likely to stall as well; hand the finding to the parent now
            break
    faulthandler.cancel_dump_traceback_later()
    try:
        os.unlink(inflight)
    except OSError:
        pass
    return out


# ----------------------------------------------------------------------------
# known findings
# ----------------------------------------------------------------------------
def load_known(prop):
    if not os.path.exists(KNOWN):
        return []
    with open(KNOWN) as f:
        data = json.load(f)
    return [e for e in data.get('findings', []) if e.get('property') == prop]


def match_known(known, violation):
    for e in known:
        if e.get('status') != 'known':
            continue
        if re.search(e['signature'], violation.get('signature', '')):
            return e
    return None


# ----------------------------------------------------------------------------
# replay files
# ----------------------------------------------------------------------------
def write_replay(prop, engine, case, violation, tag):
    os.makedirs(OUT, exist_ok=True)
    path = os.path.join(OUT, '%s-%s.replay.json' % (prop, tag))
    doc = {'property': prop, 'engine': engine.name, 'case': case,
           'violation': violation}
    with open(path, 'w') as f:
        json.dump(doc, f, indent=1, sort_keys=True, default=str)
    return path


def confirm_replay(path, oracle, timeout=600):
    '''
    Re-execute the replay file in a fresh interpreter.  Returns True iff it
    ends in the same oracle.
    '''
    env = dict(os.environ)
    env['PYTHONHASHSEED'] = '0'
    env['VERIF_CONFIRM'] = '1'
    try:
        p = subprocess.run([sys.executable, os.path.join(VERIF, 'vcheck'), 'replay', path],
                           stdout=subprocess.PIPE, stderr=subprocess.STDOUT,
                           timeout=timeout, env=env, universal_newlines=True)
    except subprocess.TimeoutExpired:
        return False, 'replay timed out'
    if oracle is None:
        m = re.search(r'^REPRODUCED oracle=(\S+) ', p.stdout, re.M)
        return (m.group(1) if (m and p.returncode == 1) else None), p.stdout[-2000:]
    ok = p.returncode == 1 and ('REPRODUCED oracle=%s ' % oracle) in p.stdout
    return ok, p.stdout[-2000:]


def _confirm_with_history(engine, prop, tier, seed, idx, v, hist):
    '''
    Find a short sequence of earlier runs of the same worker after which run `idx` fails in a fresh process with
    the same oracle.  Returns the path of a history replay file, or None.
    '''
    if not hist or hist[-1] != idx:
        return None
    earlier = hist[:-1]

    def attempt(indices, tag):
        os.makedirs(OUT, exist_ok=True)
        path = os.path.join(OUT, '%s-s%d-r%d-%s-history%s.replay.json' % (prop, seed, idx, _slug(v['oracle']), tag))
        doc = {'property': prop, 'engine': engine.name, 'violation': v,
               'history': {'tier': tier, 'seed': seed, 'indices': list(indices)}}
        with open(path, 'w') as f:
            json.dump(doc, f, indent=1, sort_keys=True, default=str)
        ok, _ = confirm_replay(path, v['oracle'], timeout=900)
        return path if ok else None

    window = None
    w = 1
    while True:
        cand = earlier[-w:] + [idx]
        p = attempt(cand, '')
        if p:
            window = cand
            break
        if w >= len(earlier) or w >= 4096:
            return None
        w *= 2
    best = window
    # try single predecessors, most recent first (the usual case: one earlier metamodel poisons the next)
    for j in reversed(window[:-1][-24:]):
        if attempt([j, idx], ''):
            best = [j, idx]
            break
    return attempt(best, '')


def replay_main(engines, path):
    with open(path) as f:
        doc = json.load(f)
    engine = engines[doc['engine']]
    prop = doc['property']
    build.prepare()
    if 'history' in doc:
        return _replay_history(engine, prop, doc)
    engine.setup(prop, 'replay')
    case = doc['case']
    if os.environ.get('VERIF_CONFIRM'):
        case = engine.relax_for_confirmation(case)
    hard_s = float(case.get('cfg', {}).get('hard_s', HARD_S))
    if os.environ.get('VERIF_CONFIRM'):
        hard_s *= 3
    sys.stdout.flush()
    pid = os.fork()
    if pid == 0:
        rc = 3
        try:
            rc = _replay_child(engine, prop, doc, case)
            sys.stdout.flush()
        finally:
            os._exit(rc)
    t_end = time.time() + hard_s
    while time.time() < t_end:
        done, status = os.waitpid(pid, os.WNOHANG)
        if done:
            return os.waitstatus_to_exitcode(status)
        time.sleep(0.05)
    os.kill(pid, 9)
    os.waitpid(pid, 0)
    print('REPRODUCED oracle=hang step=None property=%s' % prop)
    print('  detail: execution did not finish within %.0f s of wall time (killed)' % hard_s)
    return 1


def _replay_history(engine, prop, doc):
    '''a sequence of runs in one (this) fresh process; the verdict is that of the last run'''
    h = doc['history']
    engine.setup(prop, h['tier'])
    engine.plan(prop, h['tier'])
    res = None
    for idx in h['indices']:
        case = engine.generate(prop, simrng.run_seed(h['seed'], prop, idx), h['tier'], idx)
        res = engine.execute(case)
    v = res.get('violation') if res else None
    if v:
        print('REPRODUCED oracle=%s step=%s property=%s (last of %d runs in one process: %s)'
              % (v['oracle'], v.get('step'), prop, len(h['indices']), h['indices'][-6:]))
        print('  detail: %s' % v.get('detail'))
        return 1
    print('NOT-REPRODUCED property=%s (sequence of %d runs)' % (prop, len(h['indices'])))
    return 0


def _replay_child(engine, prop, doc, case):
    res = engine.execute(case)
    v = res.get('violation')
    if v:
        print('REPRODUCED oracle=%s step=%s property=%s' % (v['oracle'], v.get('step'), prop))
        print('  detail: %s' % v.get('detail'))
        print('  digest: %s' % res['digest'])
        want = doc.get('violation', {}).get('oracle')
        if want and want != v['oracle']:
            print('  (recorded oracle was %s)' % want)
        return 1
    print('NOT-REPRODUCED property=%s digest=%s' % (prop, res['digest']))
    return 0


# ----------------------------------------------------------------------------
# determinism probe
# ----------------------------------------------------------------------------
def digest_main(engines_by_prop, prop, tier, seed, first, count):
    engine = engines_by_prop[prop]
    build.prepare()
    engine.setup(prop, tier)
    m = hashlib.sha256()
    for idx in range(first, first + count):
        case = engine.generate(prop, simrng.run_seed(seed, prop, idx), tier, idx)
        res = engine.execute(case)
        m.update(res['digest'].encode())
        m.update(repr(res.get('violation') and res['violation']['oracle']).encode())
    print('DIGEST %s' % m.hexdigest())
    return 0


_PROBES = []


def _spawn_digest(prop, tier, seed, first, count, hashseed):
    env = dict(os.environ)
    env['PYTHONHASHSEED'] = str(hashseed)
    proc = _spawn_digest_process(prop, tier, seed, first, count, env)
    _PROBES.append(proc)
    return proc


def _spawn_digest_process(prop, tier, seed, first, count, env):
    return subprocess.Popen([sys.executable, os.path.join(VERIF, 'vcheck'), 'digest', prop,
                             '--tier', tier, '--seed', str(seed),
                             '--first', str(first), '--count', str(count)],
                            stdout=subprocess.PIPE, stderr=subprocess.STDOUT,
                            env=env, universal_newlines=True)


def _collect_digest(proc, timeout=600):
    try:
        out, _ = proc.communicate(timeout=timeout)
    except subprocess.TimeoutExpired:
        proc.kill()
        return None
    m = re.search(r'^DIGEST (\w+)$', out, re.M)
    return m.group(1) if m else None


# ----------------------------------------------------------------------------
# the check
# ----------------------------------------------------------------------------
def check_main(engine, prop, argv):
    ap = argparse.ArgumentParser(prog='vcheck %s' % prop)
    ap.add_argument('--tier', default=os.environ.get('VERIF_TIER') or 'quick',
                    choices=['quick', 'thorough'])
    ap.add_argument('--seed', type=int, default=None)
    ap.add_argument('--jobs', type=int, default=int(os.environ.get('VERIF_JOBS') or 0))
    ap.add_argument('--runs', type=int, default=None)
    ap.add_argument('--first', type=int, default=0, help='index of the first run (debugging aid)')
    ap.add_argument('--no-determinism', action='store_true')
    ap.add_argument('--no-evidence', action='store_true')
    args = ap.parse_args(argv)
    tier = args.tier
    seed = args.seed
    if seed is None:
        env_seed = os.environ.get('VERIF_SEED')
        seed = int(env_seed) if env_seed not in (None, '') else DEFAULT_SEED[tier]
    jobs = args.jobs or (os.cpu_count() or 1)
    t0 = time.time()
    print('VERIF_SEED=%d property=%s tier=%s jobs=%d' % (seed, prop, tier, jobs))
    sys.stdout.flush()

    try:
        try:
            rc = _check(engine, prop, tier, seed, jobs, args, t0)
        finally:
            # never leave a determinism probe behind (it would spin forever on code that does not terminate)
            for proc in _PROBES:
                if proc.poll() is None:
                    proc.kill()
            del _PROBES[:]
    except HarnessError as e:
        print('HARNESS-ERROR property=%s %s' % (prop, e))
        rc = 2
    except Exception:
        traceback.print_exc()
        print('HARNESS-ERROR property=%s unexpected exception in the harness' % prop)
        rc = 2
    finally:
        build.cleanup()
    return rc


def _check(engine, prop, tier, seed, jobs, args, t0, early_stop=True):
    build.prepare()
    engine.setup(prop, tier)
    plan = engine.plan(prop, tier)
    runs = args.runs or plan['runs']
    chunk = plan.get('chunk', 25)
    wall_cap = plan.get('wall_cap', 600)
    known = load_known(prop)

    # cross-interpreter determinism probe, concurrently with the batch
    probes = []
    dcount = min(plan.get('determinism_runs', 8), runs)
    if not args.no_determinism and dcount:
        for hs in (1, 2):
            probes.append(_spawn_digest(prop, tier, seed, 0, dcount, hs))

    inflight_dir = os.path.join(build.scratch_dir(), 'inflight')
    os.makedirs(inflight_dir, exist_ok=True)
    hard_s = plan.get('hard_s', HARD_S)
    _W.update(engine=engine, prop=prop, tier=tier, seed=seed,
              hang_s=hard_s, inflight_dir=inflight_dir)
    first = args.first
    chunks = [list(range(first + i, first + min(i + chunk, runs))) for i in range(0, runs, chunk)]
    agg = {
        'n': 0, 'steps': 0, 'lines': 0, 'nontrivial_runs': 0,
        'faults': collections.Counter(), 'probes': collections.Counter(),
        'states': set(), 'digests': [], 'violations': [], 'samples': [], 'errors': [],
    }
    truncated = False
    stalled = False
    ctx = multiprocessing.get_context('fork')
    ex = concurrent.futures.ProcessPoolExecutor(max_workers=jobs, mp_context=ctx)
    try:
        pending = collections.deque()
        it = iter(chunks)
        try:
            # keep a bounded number in flight so that the wall cap can stop early
            for c in it:
                pending.append(ex.submit(_work, c))
                if len(pending) >= jobs * 2:
                    break
            while pending:
                fut = pending.popleft()
                out = fut.result(timeout=hard_s * chunk + 120)
                for k in ('n', 'steps', 'lines', 'nontrivial_runs'):
                    agg[k] += out[k]
                agg['faults'].update(out['faults'])
                agg['probes'].update(out['probes'])
                agg['states'] |= out['states']
                agg['digests'].extend(out['digests'])
                agg['violations'].extend(out['violations'])
                agg['errors'].extend(out['errors'])
                if len(agg['samples']) < 3:
                    agg['samples'].extend(out['samples'])
                if early_stop and any(v[2]['oracle'] in ('stall', 'hang') and match_known(known, v[2]) is None
                                      for v in agg['violations']):
                    # a run that does not terminate: every other worker is likely to meet the same input and
                    # cannot be interrupted while it is inside C code -- stop here with what we have
                    truncated = True
                    stalled = True
                    for proc in list(getattr(ex, '_processes', {}).values()):
                        try:
                            proc.kill()
                        except Exception:
                            pass
                    break
                if time.time() - t0 > wall_cap:
                    truncated = True
                elif len([v for v in agg['violations']
                          if v[1] is not None and match_known(known, v[2]) is None]) >= 8:
                    truncated = True
                if not truncated:
                    c = next(it, None)
                    if c is not None:
                        pending.append(ex.submit(_work, c))
        except concurrent.futures.process.BrokenProcessPool:
            if stalled:
                raise
            hung = _triage_dead_worker(engine, prop, tier, seed, inflight_dir, hard_s)
            if not hung:
                raise HarnessError('a worker process died (hang watchdog or crash) and no in-flight '
                                   'run reproduces the hang in a fresh process; see stderr')
            for idx, path in hung:
                print('VIOLATION property=%s replay=%s' % (prop, path))
            agg['violations'] = []
            agg['hang_reports'] = hung
            truncated = True
        except concurrent.futures.TimeoutError:
            raise HarnessError('a worker did not return in time')
    finally:
        if stalled:
            ex.shutdown(wait=False, cancel_futures=True)
        else:
            ex.shutdown(wait=True, cancel_futures=True)

    if agg['errors']:
        idx, tb = agg['errors'][0]
        sys.stdout.write(tb)
        raise HarnessError('%d run(s) raised inside the harness, first at run %d'
                           % (len(agg['errors']), idx))

    agg['digests'].sort()
    m = hashlib.sha256()
    for idx, d in agg['digests']:
        m.update(('%d:%s;' % (idx, d)).encode())
    batch_digest = m.hexdigest()

    # determinism probe results
    determinism = {'checked_runs': 0}
    if probes:
        mine = hashlib.sha256()
        have = dict(agg['digests'])
        viol = {v[0]: v[2]['oracle'] for v in agg['violations']}
        ds = [_collect_digest(p) for p in probes]
        determinism = {'checked_runs': dcount, 'pythonhashseeds': [1, 2],
                       'fresh_interpreter_digests': ds,
                       'equal': ds[0] is not None and ds[0] == ds[1]}
        if not determinism['equal']:
            print('WARNING determinism probe: digests differ across PYTHONHASHSEED: %s' % ds)

    # violations
    reported = []
    known_hits = collections.Counter()
    agg['violations'].sort(key=lambda v: v[0])
    by_sig = collections.OrderedDict()
    for idx, case, v, hist in agg['violations']:
        e = match_known(known, v)
        if e is not None:
            known_hits[e['signature']] += 1
            continue
        if case is None:
            continue
        by_sig.setdefault((v['oracle'], v.get('signature')), []).append((idx, case, v, hist))

    harness_unconfirmed = []
    for (oracle, sig), items in list(by_sig.items())[:3]:
        idx, case, v, hist = items[0]
        print('candidate violation: run=%d oracle=%s step=%s' % (idx, oracle, v.get('step')))
        print('  detail: %s' % v.get('detail'))
        sys.stdout.flush()
        # every execution of a stalling case costs its whole wall budget: only cut the tail
        shrink_s = 1 if oracle in ('stall', 'hang') else plan.get('shrink_s', 90)
        small, v2, tests = simshrink.minimise(engine, case, v, budget_s=shrink_s)
        path = write_replay(prop, engine, small, v2, 's%d-r%d-%s' % (seed, idx, _slug(oracle)))
        ok, out = confirm_replay(path, v2['oracle'])
        if ok:
            print('  minimised to %d ops in %d executions' % (len(small.get('ops', [])), tests))
            print('  detail: %s' % v2.get('detail'))
            print('VIOLATION property=%s replay=%s' % (prop, path))
            reported.append({'oracle': oracle, 'replay': path, 'run': idx,
                             'signature': v2.get('signature')})
        else:
            # try the unminimised case before giving up
            path0 = write_replay(prop, engine, case, v, 's%d-r%d-%s-full' % (seed, idx, _slug(oracle)))
            ok0, out0 = confirm_replay(path0, v['oracle'])
            if ok0:
                print('VIOLATION property=%s replay=%s' % (prop, path0))
                reported.append({'oracle': oracle, 'replay': path0, 'run': idx,
                                 'signature': v.get('signature')})
            elif oracle == 'stall':
                # a wall-clock stall that does not reproduce with three times the
                # budget in a fresh process is a busy machine, not a violation
                print('  stall candidate not confirmed on re-execution with 3x budget; ignored')
            else:
                # the run fails only after other runs in the same process: state that the code under test keeps
                # between metamodels / loaders / parses.  Reproduce it as a *sequence of runs* in a fresh process.
                hpath = _confirm_with_history(engine, prop, tier, seed, idx, v, hist)
                if hpath:
                    print('  the violation needs earlier runs in the same process (state kept by the code under '
                          'test across runs); replay is a sequence of runs')
                    print('VIOLATION property=%s replay=%s' % (prop, hpath))
                    reported.append({'oracle': oracle, 'replay': hpath, 'run': idx, 'signature': v.get('signature'),
                                     'needs_history': True})
                else:
                    harness_unconfirmed.append((oracle, path, out0))

    for idx, path in agg.get('hang_reports', []):
        reported.append({'oracle': 'hang', 'replay': path, 'run': idx, 'signature': 'hang'})

    if stalled and not reported and not harness_unconfirmed:
        # the batch was cut short for a stall that did not confirm (a busy machine): nothing has been decided yet --
        # run it again, this time to the end whatever stalls
        print('  the batch was stopped for an unconfirmed stall; running it again without the early stop')
        sys.stdout.flush()
        return _check(engine, prop, tier, seed, jobs, args, t0, early_stop=False)

    for e in known:
        if e.get('status') == 'known':
            print('KNOWN-FINDING: property=%s %s (hit %d times in this run)'
                  % (prop, e['what'], known_hits.get(e['signature'], 0)))

    wall = time.time() - t0
    reach_missing = engine.reach_missing(prop, tier, agg['probes'], agg['faults']) \
        if not truncated and not agg['violations'] and not args.runs else []

    if not args.no_evidence:
        simevidence.write(engine, prop, tier, seed, agg, wall, jobs, batch_digest,
                          determinism, reported, known_hits, truncated, reach_missing)

    rate = agg['n'] / wall * 3600 if wall else 0
    print('runs=%d steps=%d metered_lines=%d distinct_states=%d wall=%.1fs (%.0f runs/h) digest=%s%s'
          % (agg['n'], agg['steps'], agg['lines'], len(agg['states']), wall, rate,
             batch_digest[:16], ' TRUNCATED' if truncated else ''))
    print('faults fired: %s' % dict(sorted(agg['faults'].items())))

    if harness_unconfirmed:
        for oracle, path, out in harness_unconfirmed:
            print('unconfirmed candidate oracle=%s replay=%s\n%s' % (oracle, path, out))
        if not reported:
            raise HarnessError('a candidate violation did not reproduce in a fresh interpreter')
        # another candidate of this batch was confirmed and reported: that verdict stands; the unconfirmed one
        # (behaviour that depends on more than the case, e.g. on object addresses) is only noted
        print('note: %d further candidate(s) did not reproduce in a fresh interpreter' % len(harness_unconfirmed))
    if reported:
        return 1
    if reach_missing:
        raise HarnessError('workload did not reach: %s' % ', '.join(reach_missing))
    print('OK property=%s' % prop)
    return 0


def _triage_dead_worker(engine, prop, tier, seed, inflight_dir, hard_s):
    '''
    A worker was killed by its per-run watchdog (a hang the in-process guards
    cannot interrupt, e.g. regex back-tracking).  Re-execute every run that was
    in flight in a fresh, killable process with three times the budget; those
    that still do not finish are violations (oracle `hang`).
    '''
    hung = []
    idxs = set()
    for name in sorted(os.listdir(inflight_dir)):
        try:
            with open(os.path.join(inflight_dir, name)) as f:
                idxs.add(int(f.read().strip()))
        except (OSError, ValueError):
            pass
    for idx in sorted(idxs):
        case = engine.generate(prop, simrng.run_seed(seed, prop, idx), tier, idx)
        case.setdefault('cfg', {})['hard_s'] = hard_s
        v = {'oracle': 'hang', 'step': None, 'signature': 'hang',
             'detail': 'run %d did not finish within %.0f s (worker killed by watchdog)' % (idx, hard_s)}
        path = write_replay(prop, engine, case, v, 's%d-r%d-hang' % (seed, idx))
        got, out = confirm_replay(path, None, timeout=hard_s * 3 + 120)
        print('in-flight run %d: %s' % (idx, ('violation confirmed on re-execution, oracle=%s' % got) if got
                                        else 'finished normally on re-execution'))
        if got:
            hung.append((idx, path))
    return hung


def _slug(s):
    return re.sub(r'[^A-Za-z0-9]+', '_', s)[:40]
