'''
In-memory disk below the real CPython io stack (DESIGN.md §3.3).

SimDisk.open() returns real io.TextIOWrapper / io.BufferedReader / Writer
objects stacked on a SimRaw(io.RawIOBase); newline translation, encoding and
buffering are therefore the real ones.  Fault knobs (all counted when they
*fire*): short raw reads/writes, OSError at the n-th raw read/write, process
crash (SimCrash) at the n-th raw write with only the bytes already handed to
the raw layer surviving, at-rest corruption, seeded directory listing order.
'''
import errno
import io
import posixpath
import zipfile as _zipfile


class SimCrash(BaseException):
    '''The simulated process dies inside a write.'''


class SimRaw(io.RawIOBase):
    def __init__(self, disk, path, mode):
        io.RawIOBase.__init__(self)
        self.disk = disk
        self.name = path
        self.mode = mode
        self._pos = 0
        self._readable = 'r' in mode or '+' in mode
        self._writable = 'w' in mode or 'a' in mode or '+' in mode
        if 'w' in mode:
            disk.files[path] = bytearray()
        elif 'a' in mode:
            disk.files.setdefault(path, bytearray())
            self._pos = len(disk.files[path])
        elif path not in disk.files:
            raise FileNotFoundError(errno.ENOENT, 'No such file or directory', path)
        self.append = 'a' in mode

    def readable(self):
        return self._readable

    def writable(self):
        return self._writable

    def seekable(self):
        return True

    def seek(self, offset, whence=0):
        size = len(self.disk.files[self.name])
        if whence == 0:
            self._pos = offset
        elif whence == 1:
            self._pos += offset
        else:
            self._pos = size + offset
        return self._pos

    def tell(self):
        return self._pos

    def readinto(self, b):
        d = self.disk
        d.raw_reads += 1
        if d.read_error_at is not None and d.raw_reads == d.read_error_at:
            d.fired['F5_io_error_read'] = d.fired.get('F5_io_error_read', 0) + 1
            raise OSError(errno.EIO, 'simulated I/O error')
        data = d.files[self.name]
        n = min(len(b), len(data) - self._pos)
        if n > 1 and d.short_read:
            m = d.rng.randint(1, n)
            if m < n:
                d.fired['F6_short_read'] = d.fired.get('F6_short_read', 0) + 1
            n = m
        if n <= 0:
            return 0
        b[:n] = data[self._pos:self._pos + n]
        self._pos += n
        return n

    def write(self, b):
        d = self.disk
        if d.crashed:
            return len(b)           # the process is dead: nothing reaches the disk any more
        d.raw_writes += 1
        if d.write_error_at is not None and d.raw_writes == d.write_error_at:
            d.fired['F5_io_error_write'] = d.fired.get('F5_io_error_write', 0) + 1
            raise OSError(d.write_errno, 'simulated I/O error')
        n = len(b)
        if n > 1 and d.short_write:
            m = d.rng.randint(1, min(n, d.short_write_max))
            if m < n:
                d.fired['F6_short_write'] = d.fired.get('F6_short_write', 0) + 1
            n = m
        data = d.files[self.name]
        if self.append:
            self._pos = len(data)
        data[self._pos:self._pos + n] = bytes(b[:n])
        self._pos += n
        d.bytes_written += n
        if d.crash_at is not None and d.raw_writes >= d.crash_at:
            d.crashed = True
            d.fired['F4_crash'] = d.fired.get('F4_crash', 0) + 1
            raise SimCrash()
        return n

    def truncate(self, size=None):
        if size is None:
            size = self._pos
        del self.disk.files[self.name][size:]
        return size


class SimDisk(object):
    def __init__(self, rng):
        self.rng = rng
        self.files = {}
        self.dirs = set(['/'])
        self.fired = {}
        self.raw_reads = 0
        self.raw_writes = 0
        self.bytes_written = 0
        self.short_read = False
        self.short_write = False
        self.short_write_max = 1 << 30
        self.read_error_at = None
        self.write_error_at = None
        self.write_errno = errno.ENOSPC
        self.crash_at = None
        self.crashed = False
        self.buffer_size = None
        self.listing = 'seeded'

    # ---- the `open` seam
    def open(self, path, mode='r', buffering=-1, encoding=None, errors=None, newline=None):
        path = str(path)
        binary = 'b' in mode
        raw = SimRaw(self, path, mode.replace('b', '').replace('t', ''))
        size = self.buffer_size or io.DEFAULT_BUFFER_SIZE
        if buffering and buffering > 1:
            size = buffering
        if raw.readable() and not raw.writable():
            buf = io.BufferedReader(raw, size)
        elif raw.writable() and not raw.readable():
            buf = io.BufferedWriter(raw, size)
        else:
            buf = io.BufferedRandom(raw, size)
        if binary:
            return buf
        text = io.TextIOWrapper(buf, encoding=encoding or 'utf-8', errors=errors, newline=newline)
        text.mode = mode
        return text

    # ---- direct access for the harness
    def put(self, path, data):
        if isinstance(data, str):
            data = data.encode('utf-8')
        self.mkdirs(posixpath.dirname(path))
        self.files[path] = bytearray(data)

    def get(self, path):
        return bytes(self.files[path])

    def mkdirs(self, path):
        while path and path not in self.dirs:
            self.dirs.add(path)
            path = posixpath.dirname(path)

    def restart(self):
        '''a new process: the crash flag and the I/O counters are gone, the bytes stay'''
        self.crashed = False
        self.crash_at = None
        self.write_error_at = None
        self.read_error_at = None
        self.raw_reads = 0
        self.raw_writes = 0

    # ---- the `os` seam (what bridgepoint.ooaofooa uses: path.isdir, path.join, walk)
    def isdir(self, path):
        return path.rstrip('/') in self.dirs or path == '/'

    def listdir(self, path):
        path = path.rstrip('/') or '/'
        names_d, names_f = [], []
        for d in self.dirs:
            if d != path and posixpath.dirname(d) == path:
                names_d.append(posixpath.basename(d))
        for f in self.files:
            if posixpath.dirname(f) == path:
                names_f.append(posixpath.basename(f))
        names_d.sort()
        names_f.sort()
        if self.listing == 'seeded':
            self.rng.shuffle(names_d)
            self.rng.shuffle(names_f)
            self.fired['F3_listing_order'] = self.fired.get('F3_listing_order', 0) + 1
        elif self.listing == 'reversed':
            names_d.reverse()
            names_f.reverse()
        return names_d, names_f

    def walk(self, top):
        top = top.rstrip('/') or '/'
        dirs, files = self.listdir(top)
        yield top, dirs, files
        for d in dirs:
            for x in self.walk(posixpath.join(top, d)):
                yield x


class OsShim(object):
    '''Stands in for the `os` module inside bridgepoint.ooaofooa.'''
    def __init__(self, disk, real_os):
        self._disk = disk
        self._os = real_os
        self.path = _PathShim(disk)

    def walk(self, top):
        return self._disk.walk(top)

    def __getattr__(self, name):
        return getattr(self._os, name)


class _PathShim(object):
    def __init__(self, disk):
        self._disk = disk

    def isdir(self, p):
        return self._disk.isdir(p)

    def join(self, *a):
        return posixpath.join(*a)

    def __getattr__(self, name):
        return getattr(posixpath, name)


class ZipShim(object):
    '''Stands in for the `zipfile` module inside bridgepoint.ooaofooa: the real zipfile over SimDisk files.'''
    def __init__(self, disk):
        self._disk = disk

    def is_zipfile(self, path):
        if path not in self._disk.files:
            return False
        with self._disk.open(path, 'rb') as f:
            return _zipfile.is_zipfile(f)

    def ZipFile(self, path, mode='r', *args, **kwargs):
        f = self._disk.open(path, mode + 'b' if 'b' not in mode else mode)
        return _zipfile.ZipFile(f, mode, *args, **kwargs)

    def __getattr__(self, name):
        return getattr(_zipfile, name)


def write_zip(disk, path, members, compression=_zipfile.ZIP_DEFLATED):
    '''members: list of (name, text) in archive order'''
    buf = io.BytesIO()
    with _zipfile.ZipFile(buf, 'w', compression) as z:
        for name, text in members:
            z.writestr(_zipfile.ZipInfo(name, date_time=(2020, 1, 1, 0, 0, 0)), text.encode('utf-8'))
    disk.put(path, buf.getvalue())
