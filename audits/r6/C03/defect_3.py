# C03 defect 3: a STRING typed key column that is given a number, a boolean or a uuid literal is not
# rejected (every other type mismatch raises ParsingException): the first and the last character of the
# literal are cut off as if they were quotes. 121 becomes '2', TRUE becomes 'RU', 10 becomes '' (null).
# Rows that do not carry the identifying value are linked, rows that carry it are not.
import sys, os; sys.path.insert(0, os.getcwd())
import logging
import xtuml
assert xtuml.__file__.startswith(os.getcwd())
logging.disable(logging.CRITICAL)

SCHEMA = '''
CREATE TABLE A (id INTEGER, b_name STRING);
CREATE TABLE B (name STRING);
CREATE ROP REF_ID R1 FROM MC A (b_name) TO 1C B (name);
'''
B_ROWS = "INSERT INTO B VALUES ('2'); INSERT INTO B VALUES ('RU'); INSERT INTO B VALUES ('121');"

bad = False
for lit in ('121', 'TRUE', '1.25'):
    a_row = 'INSERT INTO A VALUES (1, %s);' % lit
    for first in (True, False):      # statement order does not matter, it is wrong both ways
        l = xtuml.ModelLoader()
        l.input(SCHEMA)
        l.input(a_row + B_ROWS if first else B_ROWS + a_row)
        try:
            m = l.build_metamodel()
        except xtuml.ParsingException as e:
            print('%-5s -> ParsingException (fine)' % lit)
            continue
        a = m.select_any('A')
        got = [b.name for b in xtuml.navigate_many(a).B[1]()]
        print("b_name=%-5s: expected ParsingException, or a link to B('%s') only if it exists; "
              "actual links to %r, A.b_name reads %r" % (lit, lit, got, a.b_name))
        if got and got != [lit]:
            bad = True

if bad:
    print('VIOLATED: pairs whose key values differ were linked')
sys.exit(1 if bad else 0)
