# C03 defect 2: an UNSET identifying attribute of type INTEGER / REAL / BOOLEAN is not null:
# a positional INSERT with fewer values than columns leaves it at the type default (0, 0.0, FALSE),
# and every referring row holding 0 / 0.0 / FALSE is linked to it. The same row written as a named
# INSERT (column omitted) is not linked. (Sibling of the UNIQUE_ID case of the first audit, but
# deterministic, without id generator, and for the other three types.)
import sys, os; sys.path.insert(0, os.getcwd())
import itertools, logging
import xtuml
assert xtuml.__file__.startswith(os.getcwd())
logging.disable(logging.CRITICAL)

bad = False
for ty, zero in (('INTEGER', '0'), ('REAL', '0.0'), ('BOOLEAN', 'FALSE')):
    schema = [
        'CREATE TABLE A (id INTEGER, b_id %s);' % ty,
        'CREATE TABLE B (name STRING, id %s);' % ty,
        'CREATE ROP REF_ID R1 FROM MC A (b_id) TO 1C B (id);',
    ]
    a_row = 'INSERT INTO A VALUES (1, %s);' % zero
    variants = {
        'positional, id not given': "INSERT INTO B VALUES ('b');",
        'named, id not given     ': "INSERT INTO B (name) VALUES ('b');",
    }
    for label, b_row in variants.items():
        results = set()
        for perm in itertools.permutations(schema + [a_row, b_row]):
            l = xtuml.ModelLoader()
            for stmt in perm:
                l.input(stmt)
            m = l.build_metamodel()
            a = m.select_any('A')
            results.add(len(xtuml.navigate_many(a).B[1]()))
        print('%-8s %s: expected 0 links (B.id is unset), actual %s' % (ty, label, sorted(results)))
        if results != {0}:
            bad = True

if bad:
    print('VIOLATED: an unset identifying value matched a referential value')
sys.exit(1 if bad else 0)
