# C03 defect 1: an association without key attributes (unformalized association, "()" key lists)
# is loaded as the full cross product A x B, while the API (new / clone) links nothing.
import sys, os; sys.path.insert(0, os.getcwd())
import itertools, logging
import xtuml
assert xtuml.__file__.startswith(os.getcwd())
logging.disable(logging.CRITICAL)

SCHEMA = [
    'CREATE TABLE A (id INTEGER);',
    'CREATE TABLE B (id INTEGER);',
    # this is what xtuml.serialize_association() / bridgepoint gen_sql_schema emit for an
    # association that has not been formalized (bridgepoint/ooaofooa.py mk_simple_association)
    'CREATE ROP REF_ID R1 FROM MC A () TO 1C B ();',
]
ROWS = [
    'INSERT INTO B VALUES (10);',
    'INSERT INTO B VALUES (20);',
    'INSERT INTO A VALUES (1);',
    'INSERT INTO A VALUES (2);',
]

def links(m):
    ass = m.associations[0]
    return sorted((a.id, b.id) for a, bs in ass.target_link.items() for b in bs)

def load(stmts):
    l = xtuml.ModelLoader()
    l.input('\n'.join(stmts))
    return l.build_metamodel()

loaded = set()
for perm in itertools.permutations(ROWS):
    loaded.add(tuple(links(load(SCHEMA + list(perm)))))

# the same rows through the API, referred instances first
m_api = load(SCHEMA)
for i in (10, 20): m_api.new('B', i)
for i in (1, 2): m_api.new('A', i)

# the same rows cloned from the loaded metamodel, referred instances first
src = load(SCHEMA + ROWS)
m_clone = load(SCHEMA)
for kind in ('B', 'A'):
    for inst in src.select_many(kind):
        m_clone.clone(inst)

print('schema round trip :', xtuml.serialize_association(src.associations[0]).strip())
print('loader (all orders):', sorted(loaded))
print('API new()          :', links(m_api))
print('API clone()        :', links(m_clone))
print('expected           : the same set of links from all three (no row carries a referential value,')
print('                     the referred end is 1C, so nothing can be told apart: no links)')

bad = False
if len(loaded) != 1 or list(loaded)[0] != tuple(links(m_api)) or links(m_api) != links(m_clone):
    print('VIOLATED: loader and API disagree')
    bad = True
if any(l for l in loaded):
    print('VIOLATED: the loader linked every A to every B across a 1C end without comparing a single value')
    bad = True
sys.exit(1 if bad else 0)
