# C03 defect 5 (lowest confidence, another entry point; arguably outside the wording): statements split
# over two loaders that populate() ONE metamodel. The first populate strips the raw referential values,
# so a referring row loaded before its referred row is never linked; the other order links.
import sys, os; sys.path.insert(0, os.getcwd())
import logging
import xtuml
assert xtuml.__file__.startswith(os.getcwd())
logging.disable(logging.CRITICAL)

SCHEMA = '''
CREATE TABLE A (id INTEGER, b_id INTEGER);
CREATE TABLE B (id INTEGER);
CREATE ROP REF_ID R1 FROM MC A (b_id) TO 1C B (id);
'''
A_ROW = 'INSERT INTO A VALUES (1, 5);'
B_ROW = 'INSERT INTO B VALUES (5);'

def links(m):
    ass = m.associations[0]
    return sorted((a.id, b.id) for a, bs in ass.target_link.items() for b in bs)

res = {}
for label, first, second in (('A then B', A_ROW, B_ROW), ('B then A', B_ROW, A_ROW)):
    l1 = xtuml.ModelLoader(); l1.input(SCHEMA + first)
    m = l1.build_metamodel()
    l2 = xtuml.ModelLoader(); l2.input(second)
    l2.populate(m)                      # documented public method, adds the rest to the same metamodel
    res[label] = links(m)
    print('%s: expected [(1, 5)], actual %s' % (label, res[label]))
sys.exit(0 if all(v == [(1, 5)] for v in res.values()) else 1)
