# C03 defect 4 (loud, low priority; same code as defect_9 of the first audit but another input class):
# NO duplicate identifying values here. Two referring rows carry the same key on an association whose
# referring end is single-valued (1:1 / 1C:1C). The loader connects without cardinality check and
# links both, MetaClass.new() goes through the checked relate() and raises RelateException for the
# second row, which stays in the metamodel unlinked.
import sys, os; sys.path.insert(0, os.getcwd())
import logging
import xtuml
assert xtuml.__file__.startswith(os.getcwd())
logging.disable(logging.CRITICAL)

SCHEMA = '''
CREATE TABLE A (id INTEGER, b_id INTEGER);
CREATE TABLE B (id INTEGER);
CREATE ROP REF_ID R1 FROM 1C A (b_id) TO 1C B (id);
'''
def links(m):
    ass = m.associations[0]
    return sorted((a.id, b.id) for a, bs in ass.target_link.items() for b in bs)

l = xtuml.ModelLoader()
l.input(SCHEMA + 'INSERT INTO B VALUES (5); INSERT INTO A VALUES (1, 5); INSERT INTO A VALUES (2, 5);')
loaded = links(l.build_metamodel())

l = xtuml.ModelLoader(); l.input(SCHEMA); m = l.build_metamodel()
m.new('B', 5)
err = None
for args in ((1, 5), (2, 5)):
    try:
        m.new('A', *args)
    except xtuml.MetaException as e:
        err = '%s: %s' % (type(e).__name__, e)
api = links(m)
print('loader   :', loaded)
print('API new():', api, '| rows of A:', len(m.select_many('A')), '|', err)
print('expected : the same links')
sys.exit(1 if loaded != api else 0)
