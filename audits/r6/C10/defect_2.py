'''A class operation whose name differs from an attribute only in letter case hides the
attribute under that spelling.

bridgepoint.ooaofooa.mk_class installs operations on the generated class with
setattr(metaclass.clazz, o_tfr.Name, fn). Class.__getattr__ is only consulted when the
normal lookup fails, so for an attribute 'ID' and an operation 'Id' the spelling 'Id'
finds the operation on the class: inst.Id is a bound method, where_eq(Id=...) matches
nothing, while ID / id / iD read the stored value.

Run from the worktree directory (uses the model text of tests/test_bridgepoint/test_interpret.py,
with the operation Transform_Function renamed to Id).
'''
import sys, os; sys.path.insert(0, os.getcwd())
import logging; logging.disable(logging.CRITICAL)
import xtuml
assert xtuml.__file__.startswith(os.getcwd())
from bridgepoint import ooaofooa
from tests.test_bridgepoint.test_interpret import model

model = model.replace("'Transform_Function'", "'Id'")
l = ooaofooa.Loader(load_globals=True)
l.input(model, 'Test model')
c = l.build_component()
inst = c.new('Class', id=5)

bad = False
for sp in ('ID', 'Id', 'id', 'iD'):
    r = getattr(inst, sp)
    n = len(c.select_many('Class', xtuml.where_eq(**{sp: 5})))
    print('read %-2s expected 5, actual %r; where_eq(%s=5) expected 1 instance, actual %d' % (sp, r, sp, n))
    bad |= (r != 5 or n != 1)

sys.exit(1 if bad else 0)
