'''(low confidence, schema evolution) A value stored on an instance under a name that is
not (yet) an attribute is kept under the spelling as typed (Class.__setattr__ last line,
MetaClass.new keyword loop). When an attribute with that name in another letter case is
declared later (append_attribute on a populated class, as in the library's
test_case_sensitivity), the old entry stays in the instance dict as an alias: the old
spelling reads/deletes the old value through the normal lookup, every other spelling
addresses the declared attribute.
'''
import sys, os; sys.path.insert(0, os.getcwd())
import logging; logging.disable(logging.CRITICAL)
import xtuml
assert xtuml.__file__.startswith(os.getcwd())

m = xtuml.MetaModel()
A = m.define_class('A', [('Id', 'integer')])
a = m.new('A', Id=1, name='x')           # 'name' is not an attribute yet
A.append_attribute('Name', 'string')

def read(sp):
    try:
        return getattr(a, sp)
    except AttributeError:
        return 'AttributeError'

r1 = dict((sp, read(sp)) for sp in ('Name', 'name', 'NAME'))
print('after append_attribute, expected one outcome for all spellings:', r1)
a.NAME = 'y'
r2 = dict((sp, read(sp)) for sp in ('Name', 'name', 'NAME'))
print("after a.NAME = 'y', expected 'y' for all spellings:           ", r2)
print('serialized:', ' '.join(xtuml.serialize_instance(a).split()))

bad = len(set(r1.values())) != 1 or set(r2.values()) != {'y'}
sys.exit(1 if bad else 0)
