'''A derived attribute of a BridgePoint class can only be read (or filtered on) under
its declared spelling.

bridgepoint.ooaofooa.mk_class leaves derived attributes out of the attribute list of the
metaclass (derived_attributes=False, the default of mk_component / build_component) but
still installs them as python properties on the generated class under the declared
spelling. Class.__getattr__ only resolves names found in MetaClass.attributes, so every
other spelling raises AttributeError.

Run from the worktree directory (uses the model text of tests/test_bridgepoint/test_interpret.py).
'''
import sys, os; sys.path.insert(0, os.getcwd())
import logging; logging.disable(logging.CRITICAL)
import xtuml
assert xtuml.__file__.startswith(os.getcwd())
from bridgepoint import ooaofooa
from tests.test_bridgepoint.test_interpret import model

l = ooaofooa.Loader(load_globals=True)
l.input(model, 'Test model')
c = l.build_component()
inst = c.new('Class')

def read(sp):
    try:
        return getattr(inst, sp)
    except Exception as e:
        return '%s(%s)' % (type(e).__name__, e)

def count(sp):
    try:
        return len(c.select_many('Class', xtuml.where_eq(**{sp: 42})))
    except Exception as e:
        return type(e).__name__

bad = False
for sp in ('Derived_Attribute', 'derived_attribute', 'DERIVED_ATTRIBUTE'):
    r, n = read(sp), count(sp)
    print('read %-18s expected 42, actual %s; where_eq(%s=42) expected 1 instance, actual %s' % (sp, r, sp, n))
    bad |= (r != 42 or n != 1)

# for comparison: the plain attribute ID is found under every spelling
print('plain attribute:', [read(sp) == inst.ID for sp in ('ID', 'Id', 'id')])
sys.exit(1 if bad else 0)
