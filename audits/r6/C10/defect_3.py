'''(low confidence, schema built in an unusual order) The repair that resolves association
keys and identifiers to the declared spelling does so once, when the association is
defined. If the key attribute is appended to the class afterwards (append_attribute /
insert_attribute are public; attribute_name() returns names it does not know unchanged),
the spelling typed in define_association is kept and the old behaviour is back: the referential property and MetaClass.referential_attributes use the
typed spelling, the constructor stores a private default under the declared one.
'''
import sys, os; sys.path.insert(0, os.getcwd())
import logging; logging.disable(logging.CRITICAL)
import xtuml
assert xtuml.__file__.startswith(os.getcwd())

m = xtuml.MetaModel()
m.define_class('A', [('Id', 'integer')])
B = m.define_class('B', [('Id', 'integer')])
ass = m.define_association(1, 'B', ['a_id'], True, True, '', 'A', ['Id'], False, True, '')
B.append_attribute('A_Id', 'integer')     # declared after the association names it
ass.formalize()

a = m.new('A', Id=1)
b = m.new('B', Id=1)
xtuml.relate(a, b, 1)

vals = dict((sp, getattr(b, sp)) for sp in ('A_Id', 'a_id', 'A_ID', 'a_ID'))
print('reads after relate, expected 1 under every spelling:', vals)
ser = xtuml.serialize_instance(b)
print('serialized:', ' '.join(ser.split()))
n = dict((sp, len(m.select_many('B', xtuml.where_eq(**{sp: 1})))) for sp in vals)
print('where_eq(..=1), expected 1 instance under every spelling:', n)

bad = set(vals.values()) != {1} or set(n.values()) != {1}
sys.exit(1 if bad else 0)
