# C19 second audit, defect_1 (low confidence)
# Two DIFFERENT attribute names that python's full case mapping upper()s onto the same
# string ('kid' / 'kıd' dotless i, 'strasse' / 'straße') share one slot: the
# default of the second lands on the first. A defaulted unique_id ends up as the null id
# and the other attribute gets no default at all.
import sys, os; sys.path.insert(0, os.getcwd())
import xtuml
assert xtuml.__file__.startswith(os.getcwd())

bad = 0
m = xtuml.MetaModel(xtuml.IntegerGenerator())

# neither name is a lower()/casefold() variant of the other
assert 'kıd'.lower() != 'kid'.lower() and 'kıd'.casefold() != 'kid'.casefold()
m.define_class('X', [('kıd', 'unique_id'), ('kid', 'integer')])
x = m.new('X')
uid = x.__dict__.get('kıd', '<unset>')
num = x.__dict__.get('kid', '<unset>')
print("X.kıd (unique_id): expected a fresh non-null id (1), actual %r" % (uid,))
print("X.kid (integer)  : expected 0, actual %r" % (num,))
if uid in (0, None, '<unset>') or num != 0 or type(num) is not int:
    bad = 1

m.define_class('Y', [('strasse', 'string'), ('straße', 'integer')])
y = m.new('Y')
s = y.__dict__.get('strasse', '<unset>')
i = y.__dict__.get('straße', '<unset>')
print("Y.strasse (string) : expected '', actual %r" % (s,))
print("Y.straße (integer): expected 0, actual %r" % (i,))
if s != '' or i != 0 or type(i) is not int:
    bad = 1

print('VIOLATED' if bad else 'ok')
sys.exit(bad)
