# Defect 1: sort_reflexive cannot sort chains formed by a reflexive, conditional
# one-to-one association that is formalized through an association (link) class.
# The chains are navigable (one(inst).A[1, 'succeeds']() works, the library
# supports such associations, see tests/test_xtuml/test_phrase.py), but
# sort_reflexive only looks for direct links from the class to itself and raises
# UnknownLinkException for every non-empty set, for both phrases.
import sys, os; sys.path.insert(0, os.getcwd())
import xtuml
assert xtuml.__file__.startswith(os.getcwd())
from xtuml import navigate_one as one

schema = '''
CREATE TABLE A (id INTEGER, name STRING);
CREATE TABLE L (pred_id INTEGER, succ_id INTEGER);
CREATE ROP REF_ID R1 FROM 1C L (pred_id) PHRASE 'succeeds' TO 1 A (id) PHRASE 'precedes';
CREATE ROP REF_ID R1 FROM 1C L (succ_id) PHRASE 'precedes' TO 1 A (id) PHRASE 'succeeds';
'''
loader = xtuml.ModelLoader()
loader.input(schema)
m = loader.build_metamodel()

# created out of succession order: c, a, b, d ; chain a -> b -> c -> d
insts = dict((n, m.new('A', id=i, name=n)) for i, n in ((3, 'c'), (1, 'a'), (2, 'b'), (4, 'd')))
for pred, succ in (('a', 'b'), ('b', 'c'), ('c', 'd')):
    l = m.new('L')
    assert xtuml.relate(l, insts[pred], 1, 'succeeds')   # l.pred_id
    assert xtuml.relate(l, insts[succ], 1, 'precedes')   # l.succ_id

# the association is navigable from A to A, it is reflexive, conditional, one-to-one
nav = lambda n, ph: getattr(one(insts[n]).A[1, ph](), 'name', None)
assert [nav(n, 'precedes') for n in 'abcd'] == ['b', 'c', 'd', None], [nav(n, 'precedes') for n in 'abcd']
assert [nav(n, 'succeeds') for n in 'abcd'] == [None, 'a', 'b', 'c']

violated = False
for phrase, expected in (('succeeds', ['a', 'b', 'c', 'd']),   # 'a' succeeds nothing
                         ('precedes', ['d', 'c', 'b', 'a'])):  # 'd' precedes nothing
    try:
        actual = [i.name for i in xtuml.sort_reflexive(m.select_many('A'), 1, phrase)]
    except Exception as e:
        actual = '%s: %s' % (type(e).__name__, e)
    print('sort across %-10r expected %s actual %s' % (phrase, expected, actual))
    if actual != expected:
        violated = True

sys.exit(1 if violated else 0)
