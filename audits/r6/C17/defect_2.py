# LOW confidence.  In-place union / difference with an operand that is computed lazily from the
# set itself (generator, map(), filter() over s) do not give the set a mathematical set would:
# |= and -= consume the operand while they mutate s, and the live iterator over s sees the
# mutations.  &= and ^= with the very same operands snapshot the operand first and are right.
import sys, os; sys.path.insert(0, os.getcwd())
import xtuml
assert xtuml.__file__.startswith(os.getcwd())

bad = 0


def check(label, actual, expected):
    global bad
    ok = list(actual) == list(expected)
    bad += not ok
    print('%-4s %-45s expected %r, actual %r' % ('ok' if ok else 'BAD', label, list(expected), list(actual)))


succ = lambda x: (x + 1) % 4

s = xtuml.QuerySet([0])
s |= (succ(x) for x in s)                # {0} | {1}
check('s |= (succ(x) for x in s), s = {0}', s, [0, 1])

s = xtuml.QuerySet([0, 1, 2])
s -= (x + 1 for x in s)                  # {0,1,2} - {1,2,3}
check('s -= (x + 1 for x in s), s = {0,1,2}', s, [0])

s = xtuml.OrderedSet([0, 1, 2])
s -= map(lambda x: x + 1, s)
check('s -= map(x + 1, s), s = {0,1,2}', s, [0])

# same operands, the two other in-place operators: mathematically right
s = xtuml.QuerySet([0, 1, 2])
s &= (x + 1 for x in s)                  # {0,1,2} & {1,2,3}
check('s &= (x + 1 for x in s), s = {0,1,2}', s, [1, 2])
s = xtuml.QuerySet([0, 1, 2])
s ^= (x + 1 for x in s)                  # {0,1,2} ^ {1,2,3}
check('s ^= (x + 1 for x in s), s = {0,1,2}', s, [0, 3])

sys.exit(1 if bad else 0)
