# == / != / `in` never answer (hang, growing memory) or raise when the other operand is an object
# that python can iterate but that is no collection -- hole in the repair b344703, which only
# catches TypeError.  In-library operands: a navigation chain whose trailing () was forgotten
# (NavChain defines __getitem__, so iter() falls back to the sequence protocol and chain[0],
# chain[1], ... never raise IndexError) and an id generator (IdGenerator.__iter__ is endless).
import sys, os; sys.path.insert(0, os.getcwd())
import signal
import xtuml
assert xtuml.__file__.startswith(os.getcwd())


class Hang(Exception):
    pass


def on_alarm(*args):
    raise Hang()


signal.signal(signal.SIGALRM, on_alarm)

m = xtuml.MetaModel()
m.define_class('A', [('Id', 'unique_id')])
a1 = m.new('A')
a2 = m.new('A')
selection = m.select_many('A')


class Registry(object):
    'a name-keyed lookup object, not a collection'
    def __getitem__(self, name):
        return {'x': 1}[name]


# the chains are kept alive on purpose: after the endless loop they hold thousands of nested
# generators and releasing them crashes the interpreter (segmentation fault)
c1, c2, c3 = xtuml.navigate_many(a1), xtuml.navigate_one(a1), xtuml.navigate_many(a1)
cases = [
    ('selection == navigate_many(a1)   [call parentheses forgotten]', lambda: selection == c1),
    ('selection != navigate_one(a1)', lambda: selection != c2),
    ('selection in [navigate_many(a1), selection]', lambda: selection in [c3, selection]),
    ('QuerySet([1, 2]) == IntegerGenerator()', lambda: xtuml.QuerySet([1, 2]) == xtuml.IntegerGenerator()),
    ('QuerySet([1, 2]) == Registry()', lambda: xtuml.QuerySet([1, 2]) == Registry()),
]
expected = [False, True, True, False, False]

bad = 0
for (label, fn), exp in zip(cases, expected):
    signal.alarm(2)
    try:
        actual = repr(fn())
    except Hang:
        actual = 'no answer after 2 s (endless loop)'
    except Exception as e:
        actual = 'raises %s: %s' % (type(e).__name__, e)
    finally:
        signal.alarm(0)
    ok = actual == repr(exp)
    bad += not ok
    print('%-4s %s\n       expected %r, actual %s' % ('ok' if ok else 'BAD', label, exp, actual))

sys.stdout.flush()
# the abandoned chains hold thousands of nested generators; skip interpreter tear-down
os._exit(1 if bad else 0)
