# defect_4: navigate_subtype() with an association number written in another (documented as equivalent)
# form -- 'r1', 'R01' -- or with the number of an association the supertype does not take part in
# silently answers None ("no subtype") instead of the related subtype instance / an UnknownLinkException.
# navigate_one/any/many raise UnknownLinkException for the same spellings, so there the caller at least
# notices; here a wrong result is returned.
import sys, os; sys.path.insert(0, os.getcwd())
import xtuml
assert xtuml.__file__.startswith(os.getcwd())
from xtuml import navigate_subtype, navigate_one as one

l = xtuml.ModelLoader()
l.input('''
CREATE TABLE S (Id INTEGER);
CREATE TABLE T1 (Id INTEGER);
CREATE TABLE T2 (Id INTEGER);
CREATE ROP REF_ID R1 FROM 1C T1 (Id) TO 1 S (Id);
CREATE ROP REF_ID R1 FROM 1C T2 (Id) TO 1 S (Id);
INSERT INTO S VALUES (1);
INSERT INTO T2 VALUES (1);
''')
m = l.build_metamodel()
s = m.select_any('S')
t2 = m.select_any('T2')

failed = False
for rel_id in (1, 'R1', 'r1', 'R01'):
    try:
        actual = navigate_subtype(s, rel_id)
    except xtuml.UnknownLinkException as e:
        actual = 'UnknownLinkException'
    ok = actual is t2 or actual == 'UnknownLinkException'
    failed |= not ok
    print('navigate_subtype(s, %-5r) expected %s (or UnknownLinkException)  actual %s  %s'
          % (rel_id, t2, actual, 'ok' if ok else 'VIOLATED'))
try:
    one(s).T2['r1']()
except xtuml.UnknownLinkException as e:
    print("for comparison, one(s).T2['r1']() raises:", e)
sys.exit(1 if failed else 0)
