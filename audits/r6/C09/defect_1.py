# defect_1: after an association is formalized over instances that already exist (the flow of the
# library's own test tests/test_xtuml/test_metamodel.py::test_append_attribute...: define_association,
# batch_relate, formalize), equality filters and orderings on the referential attribute return stale
# values when the attribute is named in another letter case than the declared one.
import sys, os; sys.path.insert(0, os.getcwd())
import xtuml
assert xtuml.__file__.startswith(os.getcwd())
from xtuml import where_eq, order_by, relate, unrelate

m = xtuml.MetaModel(xtuml.IntegerGenerator())
m.define_class('A', [('Id', 'integer')])
m.define_class('B', [('Id', 'integer'), ('A_Id', 'integer')])
a1 = m.new('A', Id=1)
a2 = m.new('A', Id=2)
b1 = m.new('B', Id=10, A_Id=1)      # refers to a1
b2 = m.new('B', Id=20, A_Id=2)      # refers to a2

ass = m.define_association(1, 'B', ['A_Id'], True, True, '',
                              'A', ['Id'], False, False, '')
ass.batch_relate()                  # links b1-a1 and b2-a2 from the attribute values
ass.formalize()

# move b1 from a1 to a2, b2 from a2 to a1
unrelate(a1, b1, 1); unrelate(a2, b2, 1)
relate(a2, b1, 1);   relate(a1, b2, 1)

failed = False
def check(what, actual, expected):
    global failed
    ok = actual == expected
    failed |= not ok
    print('%-45s expected %-10s actual %-10s %s' % (what, expected, actual, 'ok' if ok else 'VIOLATED'))

ids = lambda s: [x.Id for x in s]
# the model state: b1 -> a2, b2 -> a1 (navigation agrees)
check('navigate b1->A[R1]', xtuml.navigate_one(b1).A[1]().Id, 2)
check("where_eq(A_Id=2)  (declared spelling)", ids(m.select_many('B', where_eq(A_Id=2))), [10])
check("where_eq(a_id=2)  (attribute names are case insensitive)", ids(m.select_many('B', where_eq(a_id=2))), [10])
check("where_eq(A_ID=1)", ids(m.select_many('B', where_eq(A_ID=1))), [20])
check("order_by('A_Id')", ids(m.select_many('B', order_by('A_Id'))), [20, 10])
check("order_by('a_id')", ids(m.select_many('B', order_by('a_id'))), [20, 10])
check("select_any dict filter {'a_ID': 2}", getattr(m.select_any('B', {'a_ID': 2}), 'Id', None), 10)
sys.exit(1 if failed else 0)
