# defect_3: MetaClass.query() (one of the query entry points) hands out a lazy generator over the live
# instance pool instead of the matching instances of the model state it was asked about: deleting the
# instances it yields ("delete everything that matches") skips every other match, and the result can be
# read only once.
import sys, os; sys.path.insert(0, os.getcwd())
import xtuml
assert xtuml.__file__.startswith(os.getcwd())

m = xtuml.MetaModel(xtuml.IntegerGenerator())
m.define_class('A', [('Id', 'integer'), ('V', 'integer')])
for i in range(6):
    m.new('A', Id=i, V=5)
mc = m.find_metaclass('A')

failed = False
def check(what, actual, expected):
    global failed
    ok = actual == expected
    failed |= not ok
    print('%-55s expected %-22s actual %-22s %s' % (what, expected, actual, 'ok' if ok else 'VIOLATED'))

r = mc.query({'V': 5})
check('query({V:5}) read once', [x.Id for x in r], [0, 1, 2, 3, 4, 5])
check('the same result read again', [x.Id for x in r], [0, 1, 2, 3, 4, 5])

seen = []
for inst in mc.query({'V': 5}):      # the same loop over select_many(where_eq(V=5)) visits all six
    seen.append(inst.Id)
    xtuml.delete(inst)
check('instances visited by: for i in query(..): delete(i)', seen, [0, 1, 2, 3, 4, 5])
check('instances with V=5 left afterwards', [x.Id for x in m.select_many('A')], [])
sys.exit(1 if failed else 0)
