# defect_2: in a copy.deepcopy() of a metamodel select_* still answers, but every navigation returns
# nothing and every referential attribute reads None, so where_eq / order_by on referential attributes
# miss all instances.  The copied instances keep the python class of the original (classes are not
# deep-copied), whose __metaclass__ -- and the Association captured by the referential properties --
# still point at the links of the ORIGINAL metamodel, keyed by the original instances.
import sys, os; sys.path.insert(0, os.getcwd())
import copy
import xtuml
assert xtuml.__file__.startswith(os.getcwd())
from xtuml import navigate_many as many, navigate_one as one, where_eq

l = xtuml.ModelLoader()
l.input('''
CREATE TABLE A (Id INTEGER);
CREATE TABLE B (Id INTEGER, A_Id INTEGER);
CREATE ROP REF_ID R1 FROM MC B (A_Id) TO 1 A (Id);
INSERT INTO A VALUES (1);
INSERT INTO B VALUES (10, 1);
INSERT INTO B VALUES (20, 1);
''')
m = l.build_metamodel()
m2 = copy.deepcopy(m)

failed = False
def check(what, actual, expected):
    global failed
    ok = actual == expected
    failed |= not ok
    print('%-40s expected %-10s actual %-10s %s' % (what, expected, actual, 'ok' if ok else 'VIOLATED'))

ids = lambda s: [x.Id for x in s]
for name, mm in (('original', m), ('deep copy', m2)):
    a = mm.select_any('A')
    b = mm.select_any('B')
    check(name + ': select_many(B)', ids(mm.select_many('B')), [10, 20])
    check(name + ': many(a).B[R1]()', ids(many(a).B[1]()), [10, 20])
    check(name + ': one(b).A[R1]()', getattr(one(b).A[1](), 'Id', None), 1)
    check(name + ': select_many(B, where_eq(A_Id=1))', ids(mm.select_many('B', where_eq(A_Id=1))), [10, 20])
print('copied instances are new objects:', m2.select_any('A') is not m.select_any('A'),
      '; but their metaclass is the original one:',
      xtuml.get_metaclass(m2.select_any('A')) is m.find_metaclass('A'))
sys.exit(1 if failed else 0)
