# Two targets whose REAL identifiers differ only beyond the sixth decimal collapse onto one key
# in the text; after reload every referring instance is linked to BOTH targets (links appear
# that were never made, and a 'TO 1' end holds two instances).
import sys, os; sys.path.insert(0, os.getcwd())
import xtuml
assert xtuml.__file__.startswith(os.getcwd())

m = xtuml.MetaModel()
m.define_class('Y', [('id', 'REAL'), ('name', 'STRING')])
m.define_class('X', [('y_id', 'REAL'), ('name', 'STRING')])
m.define_association('R1', 'X', ['y_id'], True, True, '', 'Y', ['id'], False, False, '').formalize()
m.define_unique_identifier('Y', 'I1', 'id')

y1 = m.new('Y', id=0.1234561, name='y1')
y2 = m.new('Y', id=0.1234564, name='y2')      # distinct identifier, the population is consistent
x1 = m.new('X', name='x1'); xtuml.relate(x1, y1, 'R1')
x2 = m.new('X', name='x2'); xtuml.relate(x2, y2, 'R1')
assert m.is_consistent()

def links(mm):
    res = []
    for x in mm.select_many('X'):
        for y in xtuml.navigate_many(x).Y[1]():
            res.append((x.name, y.name))
    return sorted(res)

before = links(m)
loader = xtuml.ModelLoader()
loader.input(xtuml.serialize_database(m))
m2 = loader.build_metamodel()
after = links(m2)

print('expected links:', before)
print('actual links  :', after)
if before != after:
    print('VIOLATED: links differ after reload (values are only promised to six decimals, links are promised unchanged)')
    sys.exit(1)
sys.exit(0)
