# Links made with relate() over an association that was defined with define_association()
# but never formalize()d are lost by every serialization route.
import sys, os; sys.path.insert(0, os.getcwd())
import xtuml
assert xtuml.__file__.startswith(os.getcwd())

m = xtuml.MetaModel()
m.define_class('Y', [('id', 'UNIQUE_ID'), ('name', 'STRING')])
m.define_class('X', [('y_id', 'UNIQUE_ID')])
# public API; returns the association, formalize() is a separate, optional step
m.define_association('R1', 'X', ['y_id'], True, True, '', 'Y', ['id'], False, False, '')

y = m.new('Y', name='target')
x = m.new('X')
xtuml.relate(x, y, 'R1')
before = xtuml.navigate_one(x).Y[1]()
assert before is y                       # the link exists and is navigable

text = xtuml.serialize_database(m)
loader = xtuml.ModelLoader()
loader.input(text)
m2 = loader.build_metamodel()
x2 = m2.select_any('X')
after = xtuml.navigate_one(x2).Y[1]()

print(text)
print('expected: X is linked to Y(name=target) across R1 after reload')
print('actual  : %s' % (after,))
if after is None or after.name != 'target':
    print('VIOLATED: the link is not carried by the text (X.y_id was written as %s, Y.id is %s)'
          % (xtuml.serialize_value(x.y_id, 'UNIQUE_ID'), xtuml.serialize_value(y.id, 'UNIQUE_ID')))
    sys.exit(1)
sys.exit(0)
