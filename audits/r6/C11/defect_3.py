# An identifying attribute removed with `del inst.Id` makes the check raise instead of counting a null.
# Run from the worktree directory: /venv/bin/python _out/defect_3.py
import sys, os; sys.path.insert(0, os.getcwd())
import logging
import xtuml
assert xtuml.__file__.startswith(os.getcwd())
logging.disable(logging.CRITICAL)

m = xtuml.MetaModel()
m.define_class('A', [('Id', 'INTEGER'), ('N', 'STRING')])
m.define_unique_identifier('A', 1, 'Id')
a1 = m.new('A', Id=1)
a2 = m.new('A', Id=2)
print('before:', xtuml.check_uniqueness_constraint(m), m.is_consistent())
del a1.Id
print('str() shows the deleted attribute as null:', a1)
bad = 0
for name, fn in (('check_uniqueness_constraint', lambda: xtuml.check_uniqueness_constraint(m)),
                 ('is_consistent', m.is_consistent)):
    exp = 1 if name.startswith('check') else False
    try:
        act = fn()
    except Exception as e:
        act = '%s: %s' % (type(e).__name__, e)
    print('%s: expected %r ; actual %r' % (name, exp, act))
    bad += act != exp
sys.exit(1 if bad else 0)
