# An association whose key list names the same attribute twice: partners are computed on a collapsed key map.
# Run from the worktree directory: /venv/bin/python _out/defect_1.py
import sys, os; sys.path.insert(0, os.getcwd())
import logging, subprocess, tempfile
import xtuml
assert xtuml.__file__.startswith(os.getcwd())
logging.disable(logging.CRITICAL)

def load(text):
    l = xtuml.ModelLoader(); l.input(text); return l.build_metamodel()

bad = 0

# (a) referential attribute X formalizes both I1 and I2: the only partner of A(X=5) is B(5,5).
#     A has exactly one partner on the unconditional single end, every B has 0 or 1 partner on the MC end -> 0 violations.
text_a = '''
CREATE TABLE A (Id INTEGER, X INTEGER);
CREATE TABLE B (I1 INTEGER, I2 INTEGER);
CREATE ROP REF_ID R1 FROM MC A (X, X) TO 1 B (I1, I2);
INSERT INTO A VALUES (1, 5);
INSERT INTO B VALUES (5, 5);
INSERT INTO B VALUES (6, 5);
'''
m = load(text_a)
act = xtuml.check_association_integrity(m)
print('(a) expected 0 association violations, is_consistent True ; actual %d, %s' % (act, m.is_consistent()))
print('    partners of A:', [str(b) for b in xtuml.navigate_many(m.select_any('A')).B[1]()])
bad += act != 0
with tempfile.NamedTemporaryFile('w', suffix='.sql', delete=False) as f:
    f.write(text_a)
rc = subprocess.call([sys.executable, '-c',
                      'import sys, os; sys.path.insert(0, os.getcwd()); import xtuml.consistency_check as c; '
                      'sys.exit(c.main(sys.argv[1:]) > 0)', f.name], stderr=subprocess.DEVNULL)
os.unlink(f.name)
print('    command line: expected exit 0 ; actual exit %d' % rc)
bad += rc != 0

# (b) both referentials X and Y refer to I1: A(X=5, Y=6) can not have a partner (I1 would have to be 5 and 6)
#     -> 1 violation on the unconditional end.
m = load('''
CREATE TABLE A (Id INTEGER, X INTEGER, Y INTEGER);
CREATE TABLE B (I1 INTEGER);
CREATE ROP REF_ID R1 FROM MC A (X, Y) TO 1 B (I1, I1);
INSERT INTO A VALUES (1, 5, 6);
INSERT INTO B VALUES (5);
INSERT INTO B VALUES (6);
''')
act = xtuml.check_association_integrity(m)
print('(b) expected 1 association violation, is_consistent False ; actual %d, %s' % (act, m.is_consistent()))
print('    the instance now reads', m.select_any('A'), '(the file said X=5)')
bad += act != 1

sys.exit(1 if bad else 0)
