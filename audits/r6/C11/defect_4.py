# copy.deepcopy of a consistent model is reported inconsistent (classes are copied by reference, so the
# referential properties of the copy navigate the links of the original).
# Run from the worktree directory: /venv/bin/python _out/defect_4.py
import sys, os; sys.path.insert(0, os.getcwd())
import copy, logging
import xtuml
assert xtuml.__file__.startswith(os.getcwd())
logging.disable(logging.CRITICAL)

l = xtuml.ModelLoader()
l.input('''
CREATE TABLE A (Id INTEGER);
CREATE TABLE B (A_Id INTEGER, N STRING);
CREATE UNIQUE INDEX I1 ON A (Id);
CREATE UNIQUE INDEX I1 ON B (A_Id);
CREATE ROP REF_ID R1 FROM 1C B (A_Id) TO 1 A (Id);
INSERT INTO A VALUES (1);
INSERT INTO B VALUES (1, 'x');
''')
m = l.build_metamodel()
c = copy.deepcopy(m)
exp = (xtuml.check_association_integrity(m), xtuml.check_uniqueness_constraint(m), m.is_consistent())
act = (xtuml.check_association_integrity(c), xtuml.check_uniqueness_constraint(c), c.is_consistent())
print('original (associations, identifiers, consistent):', exp)
print('deep copy                                       :', act)
print('B.A_Id in the copy reads', c.select_any('B').A_Id, '; in the original', m.select_any('B').A_Id)
sys.exit(0 if exp == act else 1)
