# A named INSERT with an empty column list omits every column, but the omitted identifying values are not null.
# Run from the worktree directory: /venv/bin/python _out/defect_2.py
import sys, os; sys.path.insert(0, os.getcwd())
import logging, subprocess, tempfile
import xtuml
assert xtuml.__file__.startswith(os.getcwd())
logging.disable(logging.CRITICAL)

SCHEMA = '''
CREATE TABLE A (Id INTEGER, U UNIQUE_ID, N STRING);
CREATE UNIQUE INDEX I1 ON A (Id);
CREATE UNIQUE INDEX I2 ON A (U);
'''
def count(text):
    l = xtuml.ModelLoader(); l.input(SCHEMA + text); m = l.build_metamodel()
    return xtuml.check_uniqueness_constraint(m), m.is_consistent()

bad = 0
ref = count("INSERT INTO A (N) VALUES ('x');")
print("INSERT INTO A (N) VALUES ('x')  : 2 null identifying values ; reported %d, consistent %s" % ref)
bad += ref != (2, False)

act = count("INSERT INTO A () VALUES ();")
print("INSERT INTO A () VALUES ()      : expected 2 (Id and U omitted as well), consistent False ; reported %d, consistent %s" % act)
bad += act != (2, False)

act = count("INSERT INTO A () VALUES ();\nINSERT INTO A () VALUES ();")
print("the same statement twice        : expected 6 (4 nulls + a repeat of I1 and of I2) ; reported %d, consistent %s" % act)
bad += act[0] != 6

with tempfile.NamedTemporaryFile('w', suffix='.sql', delete=False) as f:
    f.write(SCHEMA + "INSERT INTO A () VALUES ();")
rc = subprocess.call([sys.executable, '-c',
                      'import sys, os; sys.path.insert(0, os.getcwd()); import xtuml.consistency_check as c; '
                      'sys.exit(c.main(sys.argv[1:]) > 0)', f.name], stderr=subprocess.DEVNULL)
os.unlink(f.name)
print('command line on the one-statement file: expected exit 1 ; actual exit %d' % rc)
bad += rc != 1
sys.exit(1 if bad else 0)
