# relate() accepts a class object in place of an instance: a non-instance becomes reachable
import sys, os; sys.path.insert(0, os.getcwd())
import xtuml
assert xtuml.__file__.startswith(os.getcwd()), xtuml.__file__
from xtuml import relate, delete, navigate_many as many

loader = xtuml.ModelLoader()
loader.input('''
CREATE TABLE A (id INTEGER);
CREATE TABLE B (id INTEGER, a_id INTEGER);
CREATE ROP REF_ID R1 FROM MC B (a_id) TO 1C A (id);
''')
m = loader.build_metamodel()
b = m.new('B', id=1)
A = m.find_class('A')          # the python class of A instances, not an instance

# delete() refuses the same argument with the documented exception ...
try:
    delete(A)
    print('delete(A class): accepted')
except xtuml.DeleteException as e:
    print('delete(A class): DeleteException (%s)' % e)

# ... relate() does not
violated = False
try:
    res = relate(A, b, 'R1')
    print('relate(A class, b, R1): returned %r, expected an exception' % res)
    violated = True
except Exception as e:
    print('relate(A class, b, R1): rejected with %s' % type(e).__name__)

reached = list(many(b).A[1]())
live = list(m.select_many('A'))
print('b->A[R1] reaches %r; live A instances: %r' % (reached, live))
print('expected: nothing reachable (no A instance exists)')
if [x for x in reached if x not in live]:
    violated = True

sys.exit(1 if violated else 0)
