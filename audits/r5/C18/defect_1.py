import sys; sys.path.insert(0, '<worktree>')
# Association key lists (Association.source_keys / target_keys) are the very
# list objects of the loader's CREATE ROP statement, shared by every build.
# Editing them on one metamodel (here: while renaming a referential attribute
# of that metamodel) shows up in the other metamodel and breaks later builds.
import xtuml
assert xtuml.__file__.startswith('<worktree>')

TEXT = '''
CREATE TABLE A (Id UNIQUE_ID, Name STRING);
CREATE TABLE B (Id UNIQUE_ID, A_Id UNIQUE_ID);
CREATE ROP REF_ID R1 FROM MC B (A_Id) TO 1 A (Id);
INSERT INTO A VALUES ("00000000-0000-0000-0000-000000000001", 'a1');
INSERT INTO B VALUES ("00000000-0000-0000-0000-000000000002", "00000000-0000-0000-0000-000000000001");
'''

loader = xtuml.ModelLoader()
loader.input(TEXT)
m1 = loader.build_metamodel()
m2 = loader.build_metamodel()

m2_schema_before = xtuml.serialize_schema(m2)
m2_keys_before = list(m2.associations[0].source_keys)

# change made to m1 only: rename B.A_Id to B.Parent_Id (remove + add an
# attribute) and keep m1's association R1 in step with it
b1 = m1.find_metaclass('B')
b1.delete_attribute('A_Id')
b1.append_attribute('Parent_Id', 'UNIQUE_ID')
r1 = m1.associations[0]
r1.source_keys[r1.source_keys.index('A_Id')] = 'Parent_Id'

failed = False

print('expected: m2 association R1 source keys stay', m2_keys_before)
print('happened: m2 association R1 source keys are ', m2.associations[0].source_keys)
if m2.associations[0].source_keys != m2_keys_before:
    failed = True
if xtuml.serialize_schema(m2) != m2_schema_before:
    print('happened: serialize_schema(m2) changed:')
    print('   before:', [l for l in m2_schema_before.splitlines() if 'ROP' in l])
    print('   after: ', [l for l in xtuml.serialize_schema(m2).splitlines() if 'ROP' in l])
    failed = True

# a later build must equal a build of a fresh loader that was given the same input
fresh = xtuml.ModelLoader()
fresh.input(TEXT)
ref = xtuml.serialize(fresh.build_metamodel())
print('expected: a later build from the same loader equals a build from a fresh loader')
try:
    m3 = loader.build_metamodel()
    same = xtuml.serialize(m3) == ref
    print('happened: later build %s the fresh-loader build' % ('equals' if same else 'DIFFERS from'))
    failed = failed or not same
except Exception as e:
    print('happened: later build raised %s: %s' % (type(e).__name__, e))
    failed = True

print('shared list object:', m1.associations[0].source_keys is m2.associations[0].source_keys)
sys.exit(1 if failed else 0)
