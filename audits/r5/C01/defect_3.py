import sys; sys.path.insert(0, '<worktree>')
# An association phrase containing an apostrophe is written without doubling the
# quote (serialize_association uses " PHRASE '%s'" % phrase), so the serialized
# schema can not be parsed again -- by any route.  (And p_phrased_association_end
# takes p[7][1:-1] without un-doubling, so there is no spelling of such a phrase
# that would load back to itself.)
import xtuml
assert xtuml.__file__.startswith('<worktree>')

m = xtuml.MetaModel()
m.define_class('Person', [('Id', 'INTEGER'), ('Parent_Id', 'INTEGER')])
m.define_association('R1', 'Person', ['Parent_Id'], True, True, "is parent's child",
                     'Person', ['Id'], False, True, "is child's parent").formalize()
text = xtuml.serialize_schema(m)
print(text)
expected = [("is child's parent", "is parent's child")]
try:
    l = xtuml.ModelLoader(); l.input(text)
    m2 = l.build_metamodel()
    got = [(a.source_link.phrase, a.target_link.phrase) for a in m2.associations]
except Exception as e:
    got = '%s: %s' % (type(e).__name__, e)
print('expected phrases %r' % expected)
print('got              %r' % (got,))
sys.exit(0 if got == expected else 1)
