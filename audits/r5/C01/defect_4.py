import sys; sys.path.insert(0, '<worktree>')
# An association without key attributes (the schema of
# tests/test_xtuml/test_persist.py::test_rop_without_identifiers) has nothing in
# the instance text that records its links.  On load, populate_connections
# computes the empty index key frozenset() for every instance on both sides, so
# EVERY X is connected to EVERY Y: links that did not exist appear, and the
# links that did exist are not distinguishable from them.
import xtuml
assert xtuml.__file__.startswith('<worktree>')

l = xtuml.ModelLoader()
l.input('''
    CREATE TABLE X (n INTEGER);
    CREATE TABLE Y (n INTEGER);
    CREATE ROP REF_ID R1 FROM MC X () TO MC Y ();
''')
m = l.build_metamodel()
x1, x2 = m.new('X', 1), m.new('X', 2)
y1, y2 = m.new('Y', 1), m.new('Y', 2)
xtuml.relate(x1, y1, 1)

def links(m):
    return sorted((x.n, y.n) for x in m.select_many('X')
                  for y in xtuml.navigate_many(x).Y[1]())

l = xtuml.ModelLoader(); l.input(xtuml.serialize_database(m))
m2 = l.build_metamodel()
print('links X.n-Y.n before: %r' % links(m))
print('links X.n-Y.n after : %r' % links(m2))
sys.exit(0 if links(m) == links(m2) else 1)
