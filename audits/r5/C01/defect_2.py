import sys; sys.path.insert(0, '<worktree>')
# An identifier that starts with 'R' followed by a digit (class key letters such
# as R2D2, an attribute or index called R1) is serialized fine but can not be
# loaded: the lexer rule t_RELID (R[0-9]+) is tried before t_ID, so 'R2D2' is
# split into RELID 'R2' + ID 'D2' and 'R1' becomes a RELID, which p_identifier
# does not accept.
import xtuml
assert xtuml.__file__.startswith('<worktree>')

def roundtrip(m):
    l = xtuml.ModelLoader()
    l.input(xtuml.serialize_database(m))
    return l.build_metamodel()

bad = False

m = xtuml.MetaModel()
m.define_class('R2D2', [('Id', 'INTEGER')])
m.new('R2D2', Id=4)
try:
    m2 = roundtrip(m)
    print('class R2D2: expected Id=4, got Id=%r' % m2.select_any('R2D2').Id)
except Exception as e:
    print('class R2D2: expected to load back, got %s: %s' % (type(e).__name__, e))
    bad = True

m = xtuml.MetaModel()
m.define_class('Droid', [('R1', 'INTEGER')])
m.new('Droid', R1=4)
try:
    m2 = roundtrip(m)
    print('attribute R1: expected R1=4, got R1=%r' % m2.select_any('Droid').R1)
except Exception as e:
    print('attribute R1: expected to load back, got %s: %s' % (type(e).__name__, e))
    bad = True

m = xtuml.MetaModel()
m.define_class('Droid', [('Id', 'INTEGER')])
m.define_unique_identifier('Droid', 'R1', 'Id')
try:
    m2 = roundtrip(m)
    print('index R1: expected %r got %r' % (m.find_metaclass('Droid').indices, m2.find_metaclass('Droid').indices))
except Exception as e:
    print('index R1: expected to load back, got %s: %s' % (type(e).__name__, e))
    bad = True

sys.exit(1 if bad else 0)
