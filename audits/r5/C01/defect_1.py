import sys; sys.path.insert(0, '<worktree>')
# A STRING value containing a carriage return (CR or CRLF line break) does not
# survive the file-writing routes: persist_*() writes the CR as is, but
# ModelLoader.filename_input()/load_metamodel() open the file in text mode with
# universal newlines, which turns '\r\n' and '\r' into '\n' inside the value.
import os, tempfile
import xtuml
assert xtuml.__file__.startswith('<worktree>')

value = 'line1\r\nline2\rline3'
m = xtuml.MetaModel()
m.define_class('A', [('s', 'STRING')])
m.new('A', s=value)

d = tempfile.mkdtemp()
bad = False

# route 1: persist_database
p = os.path.join(d, 'db.sql')
xtuml.persist_database(m, p)
got = xtuml.load_metamodel(p).select_any('A').s
print('persist_database       expected %r got %r' % (value, got))
bad |= got != value

# route 2: persist_schema + persist_instances + persist_unique_identifiers
ps, pi, pu = [os.path.join(d, n) for n in ('s.sql', 'i.sql', 'u.sql')]
xtuml.persist_schema(m, ps)
xtuml.persist_instances(m, pi)
xtuml.persist_unique_identifiers(m, pu)
got = xtuml.load_metamodel([ps, pi, pu]).select_any('A').s
print('persist_schema+inst+id expected %r got %r' % (value, got))
bad |= got != value

# control: the in-memory text route keeps the value
l = xtuml.ModelLoader(); l.input(xtuml.serialize_database(m))
got = l.build_metamodel().select_any('A').s
print('serialize_database     expected %r got %r (control)' % (value, got))

sys.exit(1 if bad else 0)
