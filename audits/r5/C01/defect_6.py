import sys; sys.path.insert(0, '<worktree>')
# A referential attribute called 'mro' (the one non-dunder name that every python
# class answers to, so it is not caught by the __name__ check added in 7357834):
# Association.formalize() does getattr(clazz, 'mro', None), gets type.mro and
# keeps it as the "previous property"; for an instance that is not linked the
# getter then calls alt_prop.fget and dies with AttributeError, so the metamodel
# can not be serialized by any route (and a text with such a column loads, but
# the loaded metamodel can not be serialized again).
import xtuml
assert xtuml.__file__.startswith('<worktree>')

text = '''
CREATE TABLE A (id INTEGER, mro INTEGER);
CREATE TABLE B (id INTEGER);
CREATE ROP REF_ID R1 FROM MC A (mro) TO 1C B (id);
INSERT INTO B VALUES (5);
INSERT INTO A VALUES (1, 5);
INSERT INTO A VALUES (2, 0);
'''
l = xtuml.ModelLoader(); l.input(text)
m = l.build_metamodel()
print('expected: A(1, mro=5) and A(2, mro=0) serialized and loaded back')
try:
    t1 = xtuml.serialize_database(m)
    l = xtuml.ModelLoader(); l.input(t1)
    m2 = l.build_metamodel()
    got = [(a.id, a.mro) for a in m2.select_many('A')]
    print('got: %r' % got)
    sys.exit(0 if got == [(1, 5), (2, None)] or got == [(1, 5), (2, 0)] else 1)
except Exception as e:
    print('got: %s: %s' % (type(e).__name__, e))
    sys.exit(1)
