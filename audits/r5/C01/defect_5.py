import sys; sys.path.insert(0, '<worktree>')
# Identifiers are documented as case insensitive (MetaModel docstring), and the
# loader accepts an association whose key is spelled in another case than the
# column (populate_associations checks with attribute_type(), case-insensitively).
# But formalize() installs the referential property under the association's
# spelling ('B_ID') while MetaClass.new() and serialize_instance() work with the
# column's spelling ('b_id'): the instance keeps a plain 'b_id' slot that is never
# derived from the link, so the link made with relate() is written as 0 and is
# gone after the reload.
import xtuml
assert xtuml.__file__.startswith('<worktree>')

m = xtuml.MetaModel()
m.define_class('A', [('id', 'INTEGER'), ('b_id', 'INTEGER')])
m.define_class('B', [('id', 'INTEGER')])
m.define_association('R1', 'A', ['B_ID'], True, True, '',
                           'B', ['ID'], False, False, '').formalize()
a = m.new('A', id=1)
b = m.new('B', id=7)
xtuml.relate(a, b, 1)

text = xtuml.serialize_database(m)
l = xtuml.ModelLoader(); l.input(text)
m2 = l.build_metamodel()

before = xtuml.navigate_one(a).B[1]()
after = xtuml.navigate_one(m2.select_any('A')).B[1]()
print(text)
print('A -> B[R1] before: %s' % before)
print('A -> B[R1] after : %s' % after)
sys.exit(0 if (before is None) == (after is None) else 1)
