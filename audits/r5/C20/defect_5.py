import sys; sys.path.insert(0, '<worktree>')
# Property: "one attribute per non-derived attribute of a supported type ..., and one simple
# type per core, enumeration and user-defined data type in scope".
# The generator treats data types whose base is not one of boolean/integer/real/string/unique_id
# as unsupported: they get no simple type (date, inst_ref<Timer>, ...) and attributes of such a
# type are omitted.  A user data type based on the predefined type 'date' is handled
# inconsistently: attributes typed by it are omitted (unsupported), yet the type itself IS
# declared -- as a restriction of 'date', a name the schema never declares.  build_user_type()
# asks get_type_name() for the base, which answers with the bare name for ANY S_UDT/S_EDT base
# without checking that the base is itself declared.
import logging; logging.disable(logging.CRITICAL)
import xml.etree.ElementTree as ET
import xtuml
assert xtuml.__file__.startswith('<worktree>')
from bridgepoint import ooaofooa, gen_xsd_schema

Z = '00000000-0000-0000-0000-000000000000'
TYPES = 'ae10ad4d-0705-48ca-8238-0a8c27848d15'    # package Datatypes inside component Comp
CLASS = '134a924a-3edb-4741-a768-b2b34bc3f7a4'    # O_OBJ 'Class' of Simple_Model
DATE = 'ba5eda7a-def5-0000-0000-00000000000e'     # predefined S_UDT date (base inst<Mapping>)
def U(n): return '00000000-0000-0000-0001-%012d' % n

extra = f'''
INSERT INTO PE_PE VALUES ("{U(1)}", 1, "{TYPES}", "{Z}", 3);
INSERT INTO S_DT VALUES ("{U(1)}", "{Z}", 'Birthday', '', '');
INSERT INTO S_UDT VALUES ("{U(1)}", "{DATE}", 0, '');
'''
loader = ooaofooa.Loader()
loader.filename_input('<worktree>/tests/resources/Simple_Model.xtuml')
loader.input(extra)
m = loader.build_metamodel()
c_c = m.select_any('C_C', lambda sel: sel.Name == 'Comp')
# in-memory edit: add attribute 'born' of type Birthday to class 'Class'
o_obj = m.select_any('O_OBJ', lambda sel: sel.Name == 'Class')
s_dt = m.select_any('S_DT', lambda sel: sel.Name == 'Birthday')
o_attr = m.new('O_ATTR', Name='born', Root_Nam='born')
o_battr = m.new('O_BATTR'); o_nbattr = m.new('O_NBATTR')
assert xtuml.relate(o_attr, o_obj, 102) and xtuml.relate(o_attr, s_dt, 114)
assert xtuml.relate(o_battr, o_attr, 106) and xtuml.relate(o_nbattr, o_battr, 107)

xsd = gen_xsd_schema.prettify(ET.tostring(gen_xsd_schema.build_schema(m, c_c), 'utf-8'))
tree = ET.fromstring(xsd)
ns = '{http://www.w3.org/2001/XMLSchema}'
decls = dict((el.get('name'), el.find(ns + 'restriction').get('base')) for el in tree.findall(ns + 'simpleType'))
attrs = [el.get('name') for el in tree.find(".//%selement[@name='Class']" % ns).iter(ns + 'attribute')]
print('simple types declared  :', decls)
print("attributes of 'Class'   :", attrs)
print("expected: Birthday either supported (attribute 'born' present, base type declared) or "
      "unsupported (no attribute, no simple type)")
born = 'born' in attrs
declared = 'Birthday' in decls
base_ok = declared and (decls['Birthday'] in decls or decls['Birthday'].startswith('xs:'))
print('got     : attribute present: %s, Birthday declared: %s with base %r, base declared: %s'
      % (born, declared, decls.get('Birthday'), base_ok))
sys.exit(0 if (born and base_ok) or (not born and not declared) else 1)
