import sys; sys.path.insert(0, '<worktree>')
# Property: "one simple type per core ... data type in scope".
# The command line entry point accepts "xtuml files, or folders containing *.xtuml files" and
# always loads the library's predefined globals as well (load_metamodel(args), load_globals is
# not reachable from main()).  When the folder also holds the project's own Globals.xtuml -- as
# the library's tests/resources folder does, and as prebuilder/"export with globals" files do --
# every core type exists twice in the metamodel and is declared twice in the schema.
import logging; logging.disable(logging.CRITICAL)
import os, tempfile
import xml.etree.ElementTree as ET
import xtuml
assert xtuml.__file__.startswith('<worktree>')
from bridgepoint import gen_xsd_schema

out = os.path.join(tempfile.mkdtemp(), 'comp.xsd')
gen_xsd_schema.main(['-c', 'Comp', '-o', out, '<worktree>/tests/resources'])
tree = ET.parse(out).getroot()
ns = '{http://www.w3.org/2001/XMLSchema}'
decls = [el.get('name') for el in tree.findall(ns + 'simpleType')]
dups = sorted(set(n for n in decls if decls.count(n) > 1))
print('simple types declared:', decls)
print('expected: one simpleType per data type name (boolean, integer, real, string, unique_id, ...)')
print('got     : declared more than once: %s' % dups)
sys.exit(1 if dups else 0)
