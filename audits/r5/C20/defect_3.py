import sys; sys.path.insert(0, '<worktree>')
# Property: "one simple type per ... enumeration ... with enumerators in modeled order";
# edit "add enumerators".
# An enumerator that is related to its enumeration (R27) but not chained to a predecessor
# (R56 is conditional on both ends, Previous_Enum_ID null -- what a plain
# "INSERT INTO S_ENUM" / m.new('S_ENUM') + relate(..., 27) edit gives, and what every
# enumerator of a pre-R56 model looks like) is silently dropped from the schema:
# build_enum_type() picks ONE enumerator without predecessor and follows R56 from there.
import logging; logging.disable(logging.CRITICAL)
import xml.etree.ElementTree as ET
import xtuml
assert xtuml.__file__.startswith('<worktree>')
from bridgepoint import ooaofooa, gen_xsd_schema

Z = '00000000-0000-0000-0000-000000000000'
MY_ENUM = 'abc9c677-4fd5-4409-ada6-7ce59a014a81'  # S_EDT My_Enum of Simple_Model (E1 -> E2)

extra = f'''
INSERT INTO S_ENUM VALUES ("00000000-0000-0000-0001-000000000001", 'E3', '', "{MY_ENUM}", "{Z}");
'''
loader = ooaofooa.Loader()
loader.filename_input('<worktree>/tests/resources/Simple_Model.xtuml')
loader.input(extra)
m = loader.build_metamodel()
c_c = m.select_any('C_C', lambda sel: sel.Name == 'Comp')

s_edt = m.select_any('S_EDT')
modeled = sorted(e.Name for e in xtuml.navigate_many(s_edt).S_ENUM[27]())
xsd = gen_xsd_schema.prettify(ET.tostring(gen_xsd_schema.build_schema(m, c_c), 'utf-8'))
tree = ET.fromstring(xsd)
ns = '{http://www.w3.org/2001/XMLSchema}'
got = [el.get('value') for el in tree.find(ns + "simpleType[@name='My_Enum']").iter(ns + 'enumeration')]
print('enumerators of My_Enum in the model (R27):', modeled)
print('expected: all of them declared, E1 before E2')
print('got     :', got)
sys.exit(0 if sorted(got) == modeled and got.index('E1') < got.index('E2') else 1)
