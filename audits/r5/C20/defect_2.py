import sys; sys.path.insert(0, '<worktree>')
# Property: attributes are "typed by the attribute's base data type" and there is
# "one simple type per ... enumeration ... data type in scope".
# A class in a component nested inside component Comp uses the enumeration My_Enum that
# is defined in a package of the enclosing component Comp (visible to the nested component
# in BridgePoint).  The schema for the nested component types the attribute 'My_Enum' but
# declares no simple type My_Enum: the type is neither "global" nor "contained in" the
# nested component, the only two scopes build_schema() looks at.
import logging; logging.disable(logging.CRITICAL)
import xml.etree.ElementTree as ET
import xtuml
assert xtuml.__file__.startswith('<worktree>')
from bridgepoint import ooaofooa, gen_xsd_schema

Z = '00000000-0000-0000-0000-000000000000'
COMP = '109c0a69-f495-4920-9153-8764103be522'     # component Comp of Simple_Model
MY_ENUM = 'abc9c677-4fd5-4409-ada6-7ce59a014a81'  # S_DT My_Enum, in package Datatypes of Comp
def U(n): return '00000000-0000-0000-0001-%012d' % n

extra = f'''
INSERT INTO PE_PE VALUES ("{U(1)}", 1, "{Z}", "{COMP}", 7);
INSERT INTO EP_PKG VALUES ("{U(1)}", "{Z}", "{Z}", 'Parts', '', 0);
INSERT INTO PE_PE VALUES ("{U(2)}", 1, "{U(1)}", "{Z}", 2);
INSERT INTO C_C VALUES ("{U(2)}", "{Z}", "{Z}", 'Inner', '', 0, "{Z}", FALSE, '', '');
INSERT INTO PE_PE VALUES ("{U(3)}", 1, "{Z}", "{U(2)}", 7);
INSERT INTO EP_PKG VALUES ("{U(3)}", "{Z}", "{Z}", 'InnerClasses', '', 0);
INSERT INTO PE_PE VALUES ("{U(4)}", 1, "{U(3)}", "{Z}", 4);
INSERT INTO O_OBJ VALUES ("{U(4)}", 'Lamp', 100, 'LMP', '', "{Z}");
INSERT INTO O_ATTR VALUES ("{U(5)}", "{U(4)}", "{Z}", 'state', '', '', 'state', 0, "{MY_ENUM}", '', '');
INSERT INTO O_BATTR VALUES ("{U(5)}", "{U(4)}");
INSERT INTO O_NBATTR VALUES ("{U(5)}", "{U(4)}");
'''
loader = ooaofooa.Loader()
loader.filename_input('<worktree>/tests/resources/Simple_Model.xtuml')
loader.input(extra)
m = loader.build_metamodel()
c_c = m.select_any('C_C', lambda sel: sel.Name == 'Inner')

xsd = gen_xsd_schema.prettify(ET.tostring(gen_xsd_schema.build_schema(m, c_c), 'utf-8'))
tree = ET.fromstring(xsd)
ns = '{http://www.w3.org/2001/XMLSchema}'
decls = [el.get('name') for el in tree.findall(ns + 'simpleType')]
attrs = [(el.get('name'), el.get('type')) for el in tree.iter(ns + 'attribute')]
print('simple types declared:', decls)
print('attributes of LMP    :', attrs)
print("expected: attribute state typed My_Enum AND a simpleType My_Enum with E1, E2 in the schema")
ok = ('state', 'My_Enum') in attrs and 'My_Enum' in decls
print('got     : attribute typed %r, My_Enum declared: %s' % (dict(attrs).get('state'), 'My_Enum' in decls))
sys.exit(0 if ok else 1)
