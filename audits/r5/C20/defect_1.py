import sys; sys.path.insert(0, '<worktree>')
# Property: "... one simple type per core, enumeration and user-defined data type in scope".
# A data type that lives in a global (system level) package which a package of the
# component refers to (EP_PKGREF, R1402) is declared TWICE in the schema.
import logging; logging.disable(logging.CRITICAL)
import xml.etree.ElementTree as ET
import xtuml
assert xtuml.__file__.startswith('<worktree>')
from bridgepoint import ooaofooa, gen_xsd_schema

Z = '00000000-0000-0000-0000-000000000000'
TOP = 'a1a20979-675e-45d5-9f2c-a1d049b343f9'      # top level package of Simple_Model (holds component Comp)
CLASSES = 'd0af3024-cca1-422c-9daf-87baf3724a13'  # package with the classes inside component Comp
def U(n): return '00000000-0000-0000-0001-%012d' % n

extra = f'''
INSERT INTO PE_PE VALUES ("{U(1)}", 1, "{TOP}", "{Z}", 7);
INSERT INTO EP_PKG VALUES ("{U(1)}", "{Z}", "{Z}", 'Shared', '', 0);
INSERT INTO PE_PE VALUES ("{U(2)}", 1, "{U(1)}", "{Z}", 3);
INSERT INTO S_DT VALUES ("{U(2)}", "{Z}", 'Colour', '', '');
INSERT INTO S_EDT VALUES ("{U(2)}");
INSERT INTO S_ENUM VALUES ("{U(3)}", 'RED', '', "{U(2)}", "{Z}");
INSERT INTO S_ENUM VALUES ("{U(4)}", 'GREEN', '', "{U(2)}", "{U(3)}");
INSERT INTO EP_PKGREF VALUES ("{CLASSES}", "{U(1)}");
'''
loader = ooaofooa.Loader()
loader.filename_input('<worktree>/tests/resources/Simple_Model.xtuml')
loader.input(extra)
m = loader.build_metamodel()
c_c = m.select_any('C_C', lambda sel: sel.Name == 'Comp')

xsd = gen_xsd_schema.prettify(ET.tostring(gen_xsd_schema.build_schema(m, c_c), 'utf-8'))
tree = ET.fromstring(xsd)
ns = '{http://www.w3.org/2001/XMLSchema}'
decls = [el.get('name') for el in tree.findall(ns + 'simpleType')]
n = decls.count('Colour')
print('simple types declared:', decls)
print('expected: exactly one simpleType named Colour (one S_DT named Colour is in scope)')
print('got     : %d' % n)
sys.exit(0 if n == 1 else 1)
