import sys; sys.path.insert(0, '<worktree>')
# Reflexive association whose two ends carry the same phrase (a symmetric
# reflexive association, or no phrases at all).  Both directed links get the
# same key in MetaClass.links, the second overwrites the first.
import xtuml
from xtuml import relate, delete, navigate_one as one
assert xtuml.__file__.startswith('<worktree>')

l = xtuml.ModelLoader()
l.input('''
CREATE TABLE A (id INTEGER, peer_id INTEGER);
CREATE ROP REF_ID R1 FROM 1C A (peer_id) PHRASE 'peer' TO 1C A (id) PHRASE 'peer';
''')
m = l.build_metamodel()
a = m.new('A', id=1); b = m.new('A', id=2)
relate(a, b, 1, 'peer')
ab = one(a).A[1, 'peer'](); ba = one(b).A[1, 'peer']()
print('expected: a reaches b exactly when b reaches a')
print('got     : a->A[R1.peer] =', ab, '| b->A[R1.peer] =', ba)
bad = (ab is b) != (ba is a)
delete(a)
live = list(m.select_many('A'))
ba = one(b).A[1, 'peer']()
print('expected: after delete(a) only live instances are reachable, b.peer_id unset')
print('got     : live =', [str(x) for x in live], '| b->A[R1.peer] =', ba, '| b.peer_id =', b.peer_id)
bad = bad or (ba is not None and ba not in live) or b.peer_id is not None
sys.exit(1 if bad else 0)
