import sys; sys.path.insert(0, '<worktree>')
# relate() accepts an instance that has already been deleted: a dead instance
# becomes reachable and feeds a referential attribute.
import xtuml
from xtuml import relate, delete, navigate_one as one, navigate_many as many
assert xtuml.__file__.startswith('<worktree>')

m = xtuml.MetaModel()
m.define_class('A', [('id', 'integer')])
m.define_class('B', [('id', 'integer'), ('a_id', 'integer')])
m.define_association('R1', 'B', ['a_id'], True, True, '', 'A', ['id'], False, True, '').formalize()

a = m.new('A', id=1)
b = m.new('B', id=10)
delete(a)                                   # a is no longer in the pool
try:
    res = relate(a, b, 'R1')                # history: new, new, delete, relate
except xtuml.MetaException as e:
    res = 'rejected: %s' % e

live = list(m.select_many('A'))
reached = one(b).A[1]()
print('expected: relate of a deleted instance is rejected (or at least b reaches no A), b.a_id unset')
print('got     : relate ->', res, '| live A:', live, '| b->A[R1]:', reached, '| b.a_id:', b.a_id)
bad = reached is not None and reached not in live
# the same through the other argument order / unrelate-free history
b2 = m.new('B', id=11)
delete(b2)
a2 = m.new('A', id=2)
try:
    relate(b2, a2, 'R1')
except xtuml.MetaException:
    pass
reached2 = list(many(a2).B[1]())
print('got     : a2->B[R1]:', [str(x) for x in reached2], '| live B:', [str(x) for x in m.select_many('B')])
bad = bad or any(x not in m.select_many('B') for x in reached2)
sys.exit(1 if bad else 0)
