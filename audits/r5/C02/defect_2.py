import sys; sys.path.insert(0, '<worktree>')
# An instance creation that is rejected (RelateException out of new()) is not
# atomic: the new instance stays in the pool and stays linked across the
# associations that were processed before the one that was rejected.
import logging; logging.disable(logging.CRITICAL)
import xtuml
from xtuml import relate, navigate_one as one, navigate_many as many
assert xtuml.__file__.startswith('<worktree>')

m = xtuml.MetaModel()
m.define_class('A', [('id', 'integer')])
m.define_class('B', [('id', 'integer')])
m.define_class('L', [('id', 'integer'), ('a_id', 'integer'), ('b_id', 'integer')])
# association class L with two formalizations; every end single valued
m.define_association('R1', 'L', ['a_id'], False, True, '', 'A', ['id'], False, False, '').formalize()
m.define_association('R1', 'L', ['b_id'], False, True, '', 'B', ['id'], False, False, '').formalize()

a1 = m.new('A', id=1); a2 = m.new('A', id=2); b1 = m.new('B', id=1)
l1 = m.new('L', id=100, a_id=1, b_id=1)          # fine: l1 - a1, l1 - b1
assert l1.a_id == 1 and l1.b_id == 1

def state():
    links = []
    for ass in m.associations:
        links.append(sorted((str(k), [str(v) for v in vs]) for k, vs in ass.source_link.items()))
        links.append(sorted((str(k), [str(v) for v in vs]) for k, vs in ass.target_link.items()))
    return [str(x) for x in m.select_many('L')], links

before = state()
try:
    m.new('L', id=101, a_id=2, b_id=1)           # b1 already has its single L
    outcome = 'accepted'
except xtuml.MetaException as e:
    outcome = 'rejected with %s' % type(e).__name__
after = state()

print('expected: the creation is rejected and leaves the model exactly as it was')
print('got     :', outcome)
print('  L pool before:', before[0])
print('  L pool after :', after[0])
print('  a2->L[R1] after:', [str(x) for x in many(a2).L[1]()])
sys.exit(1 if (outcome.startswith('rejected') and before != after) else 0)
