import sys; sys.path.insert(0, '<worktree>')
# "All identifiers, e.g. attributes, association ids, key letters, are case
# insensitive" (MetaModel docstring) and the loader accepts an association whose
# key is spelled in another case than the column.  The referential attribute
# then does not follow the link.
import xtuml
from xtuml import relate, unrelate, navigate_one as one
assert xtuml.__file__.startswith('<worktree>')

l = xtuml.ModelLoader()
l.input('''
CREATE TABLE A (Id INTEGER);
CREATE TABLE B (Id INTEGER, A_Id INTEGER);
CREATE ROP REF_ID R1 FROM MC B (a_id) TO 1C A (id);
''')
m = l.build_metamodel()
a = m.new('A', Id=7)
b = m.new('B', Id=10)
relate(b, a, 1)
linked = one(b).A[1]()
print('expected: b.A_Id == b.a_id == 7 while linked to', linked)
print('got     : b.A_Id =', b.A_Id, '| b.a_id =', b.a_id, '| getattr(b, "A_ID") =', getattr(b, 'A_ID'))
bad = not (b.A_Id == 7 and b.a_id == 7)
unrelate(b, a, 1)
print('expected: unset (None) under every spelling when unlinked')
print('got     : b.A_Id =', b.A_Id, '| b.a_id =', b.a_id)
bad = bad or b.A_Id is not None or b.a_id is not None
sys.exit(1 if bad else 0)
