import sys; sys.path.insert(0, '<worktree>')
# relate() resolves the association by kind *names* only: an instance of a
# second metamodel with the same schema is accepted and a one-way link results.
import xtuml
from xtuml import relate, navigate_many as many
assert xtuml.__file__.startswith('<worktree>')

def mk():
    m = xtuml.MetaModel()
    m.define_class('A', [('id', 'integer')])
    m.define_class('B', [('id', 'integer'), ('a_id', 'integer')])
    m.define_association('R1', 'B', ['a_id'], True, True, '', 'A', ['id'], False, True, '').formalize()
    return m

m1, m2 = mk(), mk()
a = m1.new('A', id=1)
b = m2.new('B', id=5)                       # not an instance of m1 at all
try:
    res = relate(a, b, 'R1')
except xtuml.MetaException as e:
    res = 'rejected: %s' % type(e).__name__
ab = list(many(a).B[1]()); ba = list(many(b).A[1]())
print('expected: rejected (b is no B of a\'s model), or else a reaches b exactly when b reaches a and b.a_id == 1')
print('got     : relate ->', res, '| a->B[R1] =', [str(x) for x in ab], '| b->A[R1] =', [str(x) for x in ba], '| b.a_id =', b.a_id)
bad = (b in ab) != (a in ba) or any(x not in m1.select_many('B') for x in ab)
sys.exit(1 if bad else 0)
