'''
defect_4: an external entity that has a bridge whose name is a python keyword
(assert, import, from, del, is, in, class, None ...) or starts with an
underscore makes the whole component impossible to build.

Property: "... bridges ... obtained from a BridgePoint model can be invoked
from Python and from other OAL bodies".  mk_external_entity puts the bridge
names into a collections.namedtuple, which raises ValueError for such names, and
mk_component propagates it: not even the unrelated function 'other' is
obtainable.  The OAL grammar accepts all of these names ("T::assert(...)").
'''
import sys; sys.path.insert(0, '<worktree>')
import logging; logging.disable(logging.CRITICAL)
import xtuml
assert xtuml.__file__.startswith('<worktree>')
from bridgepoint import ooaofooa

# --- tiny helpers that emit rows of a BridgePoint model file -----------------
NULL = '"00000000-0000-0000-0000-000000000000"'
BOOL = '"ba5eda7a-def5-0000-0000-000000000001"'
INT  = '"ba5eda7a-def5-0000-0000-000000000002"'
STR  = '"ba5eda7a-def5-0000-0000-000000000004"'
UID  = '"ba5eda7a-def5-0000-0000-000000000005"'

def uid(n):
    return '"00000000-0000-0000-0000-%012x"' % n

def q(s):
    return "'" + s.replace("'", "''") + "'"

def row(table, *values):
    return 'INSERT INTO %s VALUES (%s);' % (table, ', '.join(str(v) for v in values))

def function(n, name, body, ret=INT):
    return row('S_SYNC', uid(n), NULL, q(name), "''", q(body), ret, 1, "''", 0, 0)

def build(rows, **kwargs):
    loader = ooaofooa.Loader(load_globals=True)
    loader.input('\n'.join(rows), 'model')
    return loader.build_component(**kwargs)

def call(fn, **kwargs):
    try:
        return fn(**kwargs)
    except BaseException as e:
        return 'raised %s: %s' % (type(e).__name__, e)

failed = []
def check(what, expected, actual):
    ok = (expected == actual) and type(expected) == type(actual)
    print('%-58s expected %-8r got %r%s' % (what, expected, actual, '' if ok else '   <-- VIOLATION'))
    if not ok:
        failed.append(what)
# -----------------------------------------------------------------------------

def model(bridge_name):
    return [
        row('S_EE', uid(20), q('Test'), "''", q('T'), NULL, "''", q('T'), 'FALSE'),
        row('S_BRG', uid(21), uid(20), q('ok'), "''", 0, INT, q('return 1;'), 1, "''", 0),
        row('S_BRG', uid(22), uid(20), q(bridge_name), "''", 0, INT,
            q('if param.cond\n return 1;\nend if;\nreturn 0;'), 1, "''", 0),
        function(1, 'f', 'return T::%s(cond: true);' % bridge_name),
        function(2, 'other', 'return 5;'),
    ]

def run(bridge_name, fn):
    try:
        c = build(model(bridge_name))
    except BaseException as e:
        return 'build_component raised %s: %s' % (type(e).__name__, e)
    return call(fn(c))

for name in ['check', 'assert', 'import', 'from', 'del', '_internal']:
    check('T::%s(cond: true) from OAL' % name, 1, run(name, lambda c: c.find_symbol('f')))
check('unrelated function in the model with T::assert', 5, run('assert', lambda c: c.find_symbol('other')))

sys.exit(1 if failed else 0)
