'''
defect_10: recursion (or plain nesting) of OAL calls deeper than about 45
levels raises python's RecursionError.

Property: "each invocation ... delivers the value of the return statement it
executes", quantified over "all generated call graphs (depth, recursion, mutual
calls)".  Every OAL call level costs about 20 python frames (lambda ->
run_function -> Walker.accept -> accept_BodyNode -> accept_BlockNode -> ... ->
accept_ReturnNode -> accept_BinaryOperationNode -> accept_FunctionInvocationNode),
so the default interpreter limit of 1000 frames is hit by a count-down from 50.
(A resource limit rather than a wrong value -- reported because the failing
depth is far below anything a modeler would call deep.)
'''
import sys; sys.path.insert(0, '<worktree>')
import logging; logging.disable(logging.CRITICAL)
import xtuml
assert xtuml.__file__.startswith('<worktree>')
from bridgepoint import ooaofooa

# --- tiny helpers that emit rows of a BridgePoint model file -----------------
NULL = '"00000000-0000-0000-0000-000000000000"'
BOOL = '"ba5eda7a-def5-0000-0000-000000000001"'
INT  = '"ba5eda7a-def5-0000-0000-000000000002"'
STR  = '"ba5eda7a-def5-0000-0000-000000000004"'
UID  = '"ba5eda7a-def5-0000-0000-000000000005"'

def uid(n):
    return '"00000000-0000-0000-0000-%012x"' % n

def q(s):
    return "'" + s.replace("'", "''") + "'"

def row(table, *values):
    return 'INSERT INTO %s VALUES (%s);' % (table, ', '.join(str(v) for v in values))

def function(n, name, body, ret=INT):
    return row('S_SYNC', uid(n), NULL, q(name), "''", q(body), ret, 1, "''", 0, 0)

def build(rows, **kwargs):
    loader = ooaofooa.Loader(load_globals=True)
    loader.input('\n'.join(rows), 'model')
    return loader.build_component(**kwargs)

def call(fn, **kwargs):
    try:
        return fn(**kwargs)
    except BaseException as e:
        return 'raised %s: %s' % (type(e).__name__, e)

failed = []
def check(what, expected, actual):
    ok = (expected == actual) and type(expected) == type(actual)
    print('%-58s expected %-8r got %r%s' % (what, expected, actual, '' if ok else '   <-- VIOLATION'))
    if not ok:
        failed.append(what)
# -----------------------------------------------------------------------------

rows = [
    function(1, 'depth', 'if param.n == 0\n return 0;\nend if;\nreturn 1 + ::depth(n: param.n - 1);'),
    function(2, 'even', 'if param.n == 0\n return true;\nend if;\nreturn ::odd(n: param.n - 1);', ret=BOOL),
    function(3, 'odd', 'if param.n == 0\n return false;\nend if;\nreturn ::even(n: param.n - 1);', ret=BOOL),
]
c = build(rows)
print('sys.getrecursionlimit() =', sys.getrecursionlimit())
for n in (10, 40, 50, 100):
    check('::depth(n: %d)' % n, n, call(c.find_symbol('depth'), n=n))
check('::even(n: 100)  (mutual recursion)', True, call(c.find_symbol('even'), n=100))

sys.exit(1 if failed else 0)
