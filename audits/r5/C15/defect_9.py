'''
defect_9: when a *named* component is built (Loader.build_component(name) --
what "python -m bridgepoint.interpret -c NAME" does), enumerations and
constants that the component uses but that are defined in a system level
package (the usual place for shared types) are unknown to its bodies.

Property: "enumerators read as their position in the modeled order of the
enumeration and constants as their modeled values".
mk_component filters S_DT and CNST_CSP with is_contained_in(sel, c_c) only;
bridgepoint.prebuild uses "is_contained_in(sel, c_c) or is_global(sel)" for the
same look-ups.  The same model read without a component name works.
'''
import sys; sys.path.insert(0, '<worktree>')
import logging; logging.disable(logging.CRITICAL)
import xtuml
assert xtuml.__file__.startswith('<worktree>')
from bridgepoint import ooaofooa

# --- tiny helpers that emit rows of a BridgePoint model file -----------------
NULL = '"00000000-0000-0000-0000-000000000000"'
BOOL = '"ba5eda7a-def5-0000-0000-000000000001"'
INT  = '"ba5eda7a-def5-0000-0000-000000000002"'
STR  = '"ba5eda7a-def5-0000-0000-000000000004"'
UID  = '"ba5eda7a-def5-0000-0000-000000000005"'

def uid(n):
    return '"00000000-0000-0000-0000-%012x"' % n

def q(s):
    return "'" + s.replace("'", "''") + "'"

def row(table, *values):
    return 'INSERT INTO %s VALUES (%s);' % (table, ', '.join(str(v) for v in values))

def function(n, name, body, ret=INT):
    return row('S_SYNC', uid(n), NULL, q(name), "''", q(body), ret, 1, "''", 0, 0)

def build(rows, **kwargs):
    loader = ooaofooa.Loader(load_globals=True)
    loader.input('\n'.join(rows), 'model')
    return loader.build_component(**kwargs)

def call(fn, **kwargs):
    try:
        return fn(**kwargs)
    except BaseException as e:
        return 'raised %s: %s' % (type(e).__name__, e)

failed = []
def check(what, expected, actual):
    ok = (expected == actual) and type(expected) == type(actual)
    print('%-58s expected %-8r got %r%s' % (what, expected, actual, '' if ok else '   <-- VIOLATION'))
    if not ok:
        failed.append(what)
# -----------------------------------------------------------------------------

def pe(element, package=NULL, component=NULL):
    return row('PE_PE', element, 1, package, component, 0)

rows = [
    # system level package 'types' with enumeration Color and constant MAX
    row('EP_PKG', uid(50), NULL, NULL, q('types'), "''", 0), pe(uid(50)),
    row('S_DT', uid(30), NULL, q('Color'), "''", "''"), pe(uid(30), package=uid(50)),
    row('S_EDT', uid(30)),
    row('S_ENUM', uid(31), q('Red'), "''", uid(30), NULL),
    row('S_ENUM', uid(32), q('Green'), "''", uid(30), uid(31)),
    row('CNST_CSP', uid(40), q('Limits'), "''"), pe(uid(40), package=uid(50)),
    row('CNST_SYC', uid(41), q('MAX'), "''", INT, uid(40), NULL, NULL),
    row('CNST_LFSC', uid(41), INT),
    row('CNST_LSC', uid(41), INT, q('10')),
    # package 'components' with component 'Comp' that owns two functions
    row('EP_PKG', uid(51), NULL, NULL, q('components'), "''", 0), pe(uid(51)),
    row('C_C', uid(60), NULL, NULL, q('Comp'), "''", 0, NULL, 'FALSE', "''", "''"), pe(uid(60), package=uid(51)),
    function(1, 'f', 'return Color::Green;'), pe(uid(1), component=uid(60)),
    function(2, 'g', 'return MAX;'), pe(uid(2), component=uid(60)),
]
for name in (None, 'Comp'):
    c = build(rows, name=name)
    check('build_component(%r): Color::Green' % name, 1, call(c.find_symbol('f')))
    check('build_component(%r): MAX' % name, 10, call(c.find_symbol('g')))

sys.exit(1 if failed else 0)
