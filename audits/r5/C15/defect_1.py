'''
defect_1: a bare "return;" raises AttributeError instead of delivering nothing.

Property: "... delivers the value of the return statement it executes (nothing
when it executes none, including a bare return)".
'''
import sys; sys.path.insert(0, '<worktree>')
import logging; logging.disable(logging.CRITICAL)
import xtuml
assert xtuml.__file__.startswith('<worktree>')
from bridgepoint import ooaofooa

# --- tiny helpers that emit rows of a BridgePoint model file -----------------
NULL = '"00000000-0000-0000-0000-000000000000"'
BOOL = '"ba5eda7a-def5-0000-0000-000000000001"'
INT  = '"ba5eda7a-def5-0000-0000-000000000002"'
STR  = '"ba5eda7a-def5-0000-0000-000000000004"'
UID  = '"ba5eda7a-def5-0000-0000-000000000005"'

def uid(n):
    return '"00000000-0000-0000-0000-%012x"' % n

def q(s):
    return "'" + s.replace("'", "''") + "'"

def row(table, *values):
    return 'INSERT INTO %s VALUES (%s);' % (table, ', '.join(str(v) for v in values))

def function(n, name, body, ret=INT):
    return row('S_SYNC', uid(n), NULL, q(name), "''", q(body), ret, 1, "''", 0, 0)

def build(rows, **kwargs):
    loader = ooaofooa.Loader(load_globals=True)
    loader.input('\n'.join(rows), 'model')
    return loader.build_component(**kwargs)

def call(fn, **kwargs):
    try:
        return fn(**kwargs)
    except BaseException as e:
        return 'raised %s: %s' % (type(e).__name__, e)

failed = []
def check(what, expected, actual):
    ok = (expected == actual) and type(expected) == type(actual)
    print('%-58s expected %-8r got %r%s' % (what, expected, actual, '' if ok else '   <-- VIOLATION'))
    if not ok:
        failed.append(what)
# -----------------------------------------------------------------------------

rows = [
    function(1, 'no_return',   'x = 1;'),
    function(2, 'bare_return', 'x = 1;\nreturn;\nx = 2;'),
    function(3, 'bare_in_if',  'if param.n > 0\n  return;\nend if;\nreturn 7;'),
    function(4, 'caller',      '::bare_return();\nreturn 5;'),
    row('O_OBJ', uid(10), q('A'), 1, q('A'), "''", NULL),
    row('O_TFR', uid(11), uid(10), q('iop'), "''", INT, 1, q('return;'), 1, "''", NULL, 0, 0),
    row('O_TFR', uid(12), uid(10), q('cop'), "''", INT, 0, q('return;'), 1, "''", NULL, 0, 0),
]
c = build(rows)
check('function without return statement', None, call(c.find_symbol('no_return')))
check('function with bare return', None, call(c.find_symbol('bare_return')))
check('bare return inside if (n=1)', None, call(c.find_symbol('bare_in_if'), n=1))
check('same function, other branch (n=0)', 7, call(c.find_symbol('bare_in_if'), n=0))
check('caller of a function that executes a bare return', 5, call(c.find_symbol('caller')))
check('instance operation with bare return', None, call(c.new('A').iop))
check('class operation with bare return', None, call(c.find_class('A').cop))

sys.exit(1 if failed else 0)
