'''
defect_3: enumerators whose name is a python keyword (None, class, from, in, is,
pass, ...) can not be read.

Property: "enumerators read as their position in the modeled order of the
enumeration".  mk_enum stores such an enumerator under '<name>_' (namedtuple
rejects keywords) but accept_EnumOrNamedConstantNode looks it up under its
modeled name, so "Mode::None" raises AttributeError.  (An enumeration that holds
both 'class' and 'class_' does not even build: duplicate field name.)
'''
import sys; sys.path.insert(0, '<worktree>')
import logging; logging.disable(logging.CRITICAL)
import xtuml
assert xtuml.__file__.startswith('<worktree>')
from bridgepoint import ooaofooa

# --- tiny helpers that emit rows of a BridgePoint model file -----------------
NULL = '"00000000-0000-0000-0000-000000000000"'
BOOL = '"ba5eda7a-def5-0000-0000-000000000001"'
INT  = '"ba5eda7a-def5-0000-0000-000000000002"'
STR  = '"ba5eda7a-def5-0000-0000-000000000004"'
UID  = '"ba5eda7a-def5-0000-0000-000000000005"'

def uid(n):
    return '"00000000-0000-0000-0000-%012x"' % n

def q(s):
    return "'" + s.replace("'", "''") + "'"

def row(table, *values):
    return 'INSERT INTO %s VALUES (%s);' % (table, ', '.join(str(v) for v in values))

def function(n, name, body, ret=INT):
    return row('S_SYNC', uid(n), NULL, q(name), "''", q(body), ret, 1, "''", 0, 0)

def build(rows, **kwargs):
    loader = ooaofooa.Loader(load_globals=True)
    loader.input('\n'.join(rows), 'model')
    return loader.build_component(**kwargs)

def call(fn, **kwargs):
    try:
        return fn(**kwargs)
    except BaseException as e:
        return 'raised %s: %s' % (type(e).__name__, e)

failed = []
def check(what, expected, actual):
    ok = (expected == actual) and type(expected) == type(actual)
    print('%-58s expected %-8r got %r%s' % (what, expected, actual, '' if ok else '   <-- VIOLATION'))
    if not ok:
        failed.append(what)
# -----------------------------------------------------------------------------

names = ['None', 'Fast', 'class', 'from', 'Slow']
rows = [row('S_DT', uid(30), NULL, q('Mode'), "''", "''"), row('S_EDT', uid(30))]
prev = NULL
for i, name in enumerate(names):
    rows.append(row('S_ENUM', uid(40 + i), q(name), "''", uid(30), prev))
    prev = uid(40 + i)
for i, name in enumerate(names):
    rows.append(function(1 + i, 'get_' + name, 'return Mode::%s;' % name))
rows.append(function(9, 'cmp', 'm = Mode::Fast;\nif m == Mode::None\n return 0;\nend if;\nreturn 1;'))
c = build(rows)
print('python object of the enumeration:', c.find_symbol('Mode'))
for i, name in enumerate(names):
    check('Mode::%s' % name, i, call(c.find_symbol('get_' + name)))
check('comparison with Mode::None in an if', 1, call(c.find_symbol('cmp')))

sys.exit(1 if failed else 0)
