'''
defect_2: a local variable of the caller hijacks the invocation of a function,
class operation, bridge or enumeration of the same name.

OAL keeps local variables and callable model elements apart (a function is
always invoked as ::name(), an operation as KL::name(), a bridge as EE::name()),
so "total = ::total(n: 3);" is legal.  The interpreter resolves the callee
through the caller's *variable* table first (SymbolTable.find_symbol), so the
variable is "called" instead of the function.
'''
import sys; sys.path.insert(0, '<worktree>')
import logging; logging.disable(logging.CRITICAL)
import xtuml
assert xtuml.__file__.startswith('<worktree>')
from bridgepoint import ooaofooa

# --- tiny helpers that emit rows of a BridgePoint model file -----------------
NULL = '"00000000-0000-0000-0000-000000000000"'
BOOL = '"ba5eda7a-def5-0000-0000-000000000001"'
INT  = '"ba5eda7a-def5-0000-0000-000000000002"'
STR  = '"ba5eda7a-def5-0000-0000-000000000004"'
UID  = '"ba5eda7a-def5-0000-0000-000000000005"'

def uid(n):
    return '"00000000-0000-0000-0000-%012x"' % n

def q(s):
    return "'" + s.replace("'", "''") + "'"

def row(table, *values):
    return 'INSERT INTO %s VALUES (%s);' % (table, ', '.join(str(v) for v in values))

def function(n, name, body, ret=INT):
    return row('S_SYNC', uid(n), NULL, q(name), "''", q(body), ret, 1, "''", 0, 0)

def build(rows, **kwargs):
    loader = ooaofooa.Loader(load_globals=True)
    loader.input('\n'.join(rows), 'model')
    return loader.build_component(**kwargs)

def call(fn, **kwargs):
    try:
        return fn(**kwargs)
    except BaseException as e:
        return 'raised %s: %s' % (type(e).__name__, e)

failed = []
def check(what, expected, actual):
    ok = (expected == actual) and type(expected) == type(actual)
    print('%-58s expected %-8r got %r%s' % (what, expected, actual, '' if ok else '   <-- VIOLATION'))
    if not ok:
        failed.append(what)
# -----------------------------------------------------------------------------

rows = [
    function(1, 'total', 'return param.n * 2;'),
    # the variable 'total' exists before the second call
    function(2, 'f', 'total = ::total(n: 3);\ntotal = total + ::total(n: 1);\nreturn total;'),
    # class A with a class based operation, external entity T with a bridge
    row('O_OBJ', uid(10), q('A'), 1, q('A'), "''", NULL),
    row('O_TFR', uid(11), uid(10), q('cop'), "''", INT, 0, q('return 11;'), 1, "''", NULL, 0, 0),
    row('S_EE', uid(20), q('T'), "''", q('T'), NULL, "''", q('T'), 'FALSE'),
    row('S_BRG', uid(21), uid(20), q('b'), "''", 0, INT, q('return 13;'), 1, "''", 0),
    row('S_DT', uid(30), NULL, q('Color'), "''", "''"),
    row('S_EDT', uid(30)),
    row('S_ENUM', uid(31), q('Red'), "''", uid(30), NULL),
    row('S_ENUM', uid(32), q('Green'), "''", uid(30), uid(31)),
    function(3, 'g', 'A = 2;\nreturn A::cop() + A;'),
    function(4, 'h', 'T = 1;\nreturn T::b() + T;'),
    function(5, 'k', 'Color = Color::Green;\nreturn Color + Color::Green;'),
]
c = build(rows)
check('::total() while a variable "total" exists', 8, call(c.find_symbol('f')))
check('A::cop() while a variable "A" exists', 13, call(c.find_symbol('g')))
check('T::b() while a variable "T" exists', 14, call(c.find_symbol('h')))
check('Color::Green while a variable "Color" exists', 2, call(c.find_symbol('k')))

sys.exit(1 if failed else 0)
