'''
defect_5: a class based operation with a parameter named 'cls' can not be
invoked (neither from OAL nor from python).

Property: "each invocation binds parameters by name".  mk_operation wraps class
based operations as classmethod(lambda cls, **kwargs: ...), so the modeled
parameter 'cls' collides with the python-level positional argument:
TypeError "got multiple values for argument 'cls'".
'''
import sys; sys.path.insert(0, '<worktree>')
import logging; logging.disable(logging.CRITICAL)
import xtuml
assert xtuml.__file__.startswith('<worktree>')
from bridgepoint import ooaofooa

# --- tiny helpers that emit rows of a BridgePoint model file -----------------
NULL = '"00000000-0000-0000-0000-000000000000"'
BOOL = '"ba5eda7a-def5-0000-0000-000000000001"'
INT  = '"ba5eda7a-def5-0000-0000-000000000002"'
STR  = '"ba5eda7a-def5-0000-0000-000000000004"'
UID  = '"ba5eda7a-def5-0000-0000-000000000005"'

def uid(n):
    return '"00000000-0000-0000-0000-%012x"' % n

def q(s):
    return "'" + s.replace("'", "''") + "'"

def row(table, *values):
    return 'INSERT INTO %s VALUES (%s);' % (table, ', '.join(str(v) for v in values))

def function(n, name, body, ret=INT):
    return row('S_SYNC', uid(n), NULL, q(name), "''", q(body), ret, 1, "''", 0, 0)

def build(rows, **kwargs):
    loader = ooaofooa.Loader(load_globals=True)
    loader.input('\n'.join(rows), 'model')
    return loader.build_component(**kwargs)

def call(fn, **kwargs):
    try:
        return fn(**kwargs)
    except BaseException as e:
        return 'raised %s: %s' % (type(e).__name__, e)

failed = []
def check(what, expected, actual):
    ok = (expected == actual) and type(expected) == type(actual)
    print('%-58s expected %-8r got %r%s' % (what, expected, actual, '' if ok else '   <-- VIOLATION'))
    if not ok:
        failed.append(what)
# -----------------------------------------------------------------------------

rows = [
    row('O_OBJ', uid(10), q('A'), 1, q('A'), "''", NULL),
    row('O_TFR', uid(11), uid(10), q('classify'), "''", INT, 0, q('return param.cls + 1;'), 1, "''", NULL, 0, 0),
    row('O_TFR', uid(12), uid(10), q('classify2'), "''", INT, 0, q('return param.kind + 1;'), 1, "''", NULL, 0, 0),
    function(1, 'f', 'return A::classify(cls: 4);'),
    function(2, 'g', 'return A::classify2(kind: 4);'),
]
c = build(rows)
check('A::classify2(kind: 4) from OAL (control)', 5, call(c.find_symbol('g')))
check('A::classify(cls: 4) from OAL', 5, call(c.find_symbol('f')))
check('A.classify(cls=4) from python', 5, call(c.find_class('A').classify, cls=4))

sys.exit(1 if failed else 0)
