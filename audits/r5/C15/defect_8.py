'''
defect_8: with build_component(derived_attributes=True) a class that has a
derived attribute can not be instantiated, so its derived attribute (and its
operations) can never be evaluated.

Property: "derived attributes obtained from a BridgePoint model can be invoked
from Python and from other OAL bodies ... recomputed on every read".
mk_class then lists the derived attribute as an ordinary attribute *and*
installs a read-only python property of the same name on the class; the
default-value assignment in MetaClass.new() hits the property:
AttributeError "property ... has no setter".  derived_attributes is a
documented parameter of the public Loader.build_component / mk_component.
'''
import sys; sys.path.insert(0, '<worktree>')
import logging; logging.disable(logging.CRITICAL)
import xtuml
assert xtuml.__file__.startswith('<worktree>')
from bridgepoint import ooaofooa

# --- tiny helpers that emit rows of a BridgePoint model file -----------------
NULL = '"00000000-0000-0000-0000-000000000000"'
BOOL = '"ba5eda7a-def5-0000-0000-000000000001"'
INT  = '"ba5eda7a-def5-0000-0000-000000000002"'
STR  = '"ba5eda7a-def5-0000-0000-000000000004"'
UID  = '"ba5eda7a-def5-0000-0000-000000000005"'

def uid(n):
    return '"00000000-0000-0000-0000-%012x"' % n

def q(s):
    return "'" + s.replace("'", "''") + "'"

def row(table, *values):
    return 'INSERT INTO %s VALUES (%s);' % (table, ', '.join(str(v) for v in values))

def function(n, name, body, ret=INT):
    return row('S_SYNC', uid(n), NULL, q(name), "''", q(body), ret, 1, "''", 0, 0)

def build(rows, **kwargs):
    loader = ooaofooa.Loader(load_globals=True)
    loader.input('\n'.join(rows), 'model')
    return loader.build_component(**kwargs)

def call(fn, **kwargs):
    try:
        return fn(**kwargs)
    except BaseException as e:
        return 'raised %s: %s' % (type(e).__name__, e)

failed = []
def check(what, expected, actual):
    ok = (expected == actual) and type(expected) == type(actual)
    print('%-58s expected %-8r got %r%s' % (what, expected, actual, '' if ok else '   <-- VIOLATION'))
    if not ok:
        failed.append(what)
# -----------------------------------------------------------------------------

rows = [
    row('O_OBJ', uid(10), q('A'), 1, q('A'), "''", NULL),
    row('O_ATTR', uid(11), uid(10), NULL, q('x'), "''", "''", q('x'), 0, INT, "''", "''"),
    row('O_BATTR', uid(11), uid(10)),
    row('O_NBATTR', uid(11), uid(10)),
    row('O_ATTR', uid(12), uid(10), uid(11), q('twice'), "''", "''", q('twice'), 0, INT, "''", "''"),
    row('O_BATTR', uid(12), uid(10)),
    row('O_DBATTR', uid(12), uid(10), q('self.twice = self.x * 2;'), 1, 0),
    function(1, 'f', 'create object instance a of A;\na.x = 4;\nr = a.twice;\na.x = 5;\nreturn r * 100 + a.twice;'),
]
def from_python(c):
    a = c.new('A', x=4)
    r = a.twice
    a.x = 5
    return r * 100 + a.twice

for flag in (False, True):
    c = build(rows, derived_attributes=flag)
    check('derived_attributes=%s: read twice from OAL' % flag, 810, call(c.find_symbol('f')))
    check('derived_attributes=%s: read twice from python' % flag, 810, call(lambda: from_python(c)))

sys.exit(1 if failed else 0)
