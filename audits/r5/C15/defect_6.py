'''
defect_6: a constant whose data type is a user defined type (based on integer,
string, ...) silently reads as None.

Property: "... constants [read] as their modeled values".
mk_constant compares the *name* of the constant's data type with the four core
type names and falls off the end (returns None) for anything else, e.g. a user
defined type 'Percent' based on integer.  No error, no warning.
'''
import sys; sys.path.insert(0, '<worktree>')
import logging; logging.disable(logging.CRITICAL)
import xtuml
assert xtuml.__file__.startswith('<worktree>')
from bridgepoint import ooaofooa

# --- tiny helpers that emit rows of a BridgePoint model file -----------------
NULL = '"00000000-0000-0000-0000-000000000000"'
BOOL = '"ba5eda7a-def5-0000-0000-000000000001"'
INT  = '"ba5eda7a-def5-0000-0000-000000000002"'
STR  = '"ba5eda7a-def5-0000-0000-000000000004"'
UID  = '"ba5eda7a-def5-0000-0000-000000000005"'

def uid(n):
    return '"00000000-0000-0000-0000-%012x"' % n

def q(s):
    return "'" + s.replace("'", "''") + "'"

def row(table, *values):
    return 'INSERT INTO %s VALUES (%s);' % (table, ', '.join(str(v) for v in values))

def function(n, name, body, ret=INT):
    return row('S_SYNC', uid(n), NULL, q(name), "''", q(body), ret, 1, "''", 0, 0)

def build(rows, **kwargs):
    loader = ooaofooa.Loader(load_globals=True)
    loader.input('\n'.join(rows), 'model')
    return loader.build_component(**kwargs)

def call(fn, **kwargs):
    try:
        return fn(**kwargs)
    except BaseException as e:
        return 'raised %s: %s' % (type(e).__name__, e)

failed = []
def check(what, expected, actual):
    ok = (expected == actual) and type(expected) == type(actual)
    print('%-58s expected %-8r got %r%s' % (what, expected, actual, '' if ok else '   <-- VIOLATION'))
    if not ok:
        failed.append(what)
# -----------------------------------------------------------------------------

rows = [
    # user defined data types 'Percent' (based on integer) and 'Label' (string)
    row('S_DT', uid(30), NULL, q('Percent'), "''", "''"),
    row('S_UDT', uid(30), INT, 0, "''"),
    row('S_DT', uid(31), NULL, q('Label'), "''", "''"),
    row('S_UDT', uid(31), STR, 0, "''"),
    row('CNST_CSP', uid(40), q('Limits'), "''"),
]
def constant(n, name, dt, value):
    return [row('CNST_SYC', uid(n), q(name), "''", dt, uid(40), NULL, NULL),
            row('CNST_LFSC', uid(n), dt),
            row('CNST_LSC', uid(n), dt, q(value))]
rows += constant(41, 'MAX', INT, '10')
rows += constant(42, 'MAX_PCT', uid(30), '100')
rows += constant(43, 'NAME', uid(31), 'limit')
rows += [
    function(1, 'plain',  'return MAX;'),
    function(2, 'udt',    'return MAX_PCT;'),
    function(3, 'udt_s',  'return NAME;'),
    function(4, 'use',    'if MAX_PCT > 50\n return 1;\nend if;\nreturn 0;'),
]
c = build(rows)
check('integer constant MAX (control)', 10, call(c.find_symbol('plain')))
check('constant MAX_PCT of type Percent (integer based)', 100, call(c.find_symbol('udt')))
check('constant NAME of type Label (string based)', 'limit', call(c.find_symbol('udt_s')))
check('MAX_PCT used in a condition', 1, call(c.find_symbol('use')))
check('python: c.find_symbol("MAX_PCT")', 100, call(lambda: c.find_symbol('MAX_PCT')))

sys.exit(1 if failed else 0)
