'''
defect_7: a constant referenced with its scoped name
"<constant specification>::<constant>" can not be read by the interpreter.

Property: "... constants [read] as their modeled values".
mk_component registers constants under their bare name only
(target.add_symbol(cnst_syc.Name, value)); accept_EnumOrNamedConstantNode looks
the *specification* name up as a symbol and fails with "Unknown symbol Limits".
The scoped form is legal OAL and is what bridgepoint.prebuild resolves for the
same node type (tests/test_bridgepoint/test_const.py::test_named_string,
prebuild.py: CNST_CSP where InformalGroupName == node.namespace).
'''
import sys; sys.path.insert(0, '<worktree>')
import logging; logging.disable(logging.CRITICAL)
import xtuml
assert xtuml.__file__.startswith('<worktree>')
from bridgepoint import ooaofooa

# --- tiny helpers that emit rows of a BridgePoint model file -----------------
NULL = '"00000000-0000-0000-0000-000000000000"'
BOOL = '"ba5eda7a-def5-0000-0000-000000000001"'
INT  = '"ba5eda7a-def5-0000-0000-000000000002"'
STR  = '"ba5eda7a-def5-0000-0000-000000000004"'
UID  = '"ba5eda7a-def5-0000-0000-000000000005"'

def uid(n):
    return '"00000000-0000-0000-0000-%012x"' % n

def q(s):
    return "'" + s.replace("'", "''") + "'"

def row(table, *values):
    return 'INSERT INTO %s VALUES (%s);' % (table, ', '.join(str(v) for v in values))

def function(n, name, body, ret=INT):
    return row('S_SYNC', uid(n), NULL, q(name), "''", q(body), ret, 1, "''", 0, 0)

def build(rows, **kwargs):
    loader = ooaofooa.Loader(load_globals=True)
    loader.input('\n'.join(rows), 'model')
    return loader.build_component(**kwargs)

def call(fn, **kwargs):
    try:
        return fn(**kwargs)
    except BaseException as e:
        return 'raised %s: %s' % (type(e).__name__, e)

failed = []
def check(what, expected, actual):
    ok = (expected == actual) and type(expected) == type(actual)
    print('%-58s expected %-8r got %r%s' % (what, expected, actual, '' if ok else '   <-- VIOLATION'))
    if not ok:
        failed.append(what)
# -----------------------------------------------------------------------------

rows = [
    row('CNST_CSP', uid(40), q('Limits'), "''"),
    row('CNST_SYC', uid(41), q('MAX'), "''", INT, uid(40), NULL, NULL),
    row('CNST_LFSC', uid(41), INT),
    row('CNST_LSC', uid(41), INT, q('10')),
    function(1, 'plain',  'return MAX;'),
    function(2, 'scoped', 'return Limits::MAX;'),
    function(3, 'scoped2', 'x = 1 + Limits::MAX;\nreturn x;'),
]
c = build(rows)
check('bare reference MAX (control)', 10, call(c.find_symbol('plain')))
check('scoped reference Limits::MAX', 10, call(c.find_symbol('scoped')))
check('scoped reference inside an expression', 11, call(c.find_symbol('scoped2')))

sys.exit(1 if failed else 0)
