import sys; sys.path.insert(0, "<worktree>")
import logging
import xtuml
assert xtuml.__file__.startswith("<worktree>"), xtuml.__file__
logging.disable(logging.CRITICAL)

def load(*texts, **kw):
    l = xtuml.ModelLoader()
    for t in texts:
        l.input(t)
    return l.build_metamodel(**kw)

def links(m):
    """per association: sorted (referring tag, referred tag), checked in both directions"""
    out = []
    for ass in m.associations:
        fwd = sorted((a.tag, b.tag) for b, aset in ass.source_link.items() for a in aset)
        bwd = sorted((a.tag, b.tag) for a, bset in ass.target_link.items() for b in bset)
        assert fwd == bwd
        out.append(fwd)
    return out


# An identifying UNIQUE_ID attribute that a row leaves UNSET (positional INSERT
# with fewer values than columns) is not null after loading: MetaClass.new()
# draws a value from the id generator for it.  With the documented
# build_metamodel(xtuml.IntegerGenerator()) the drawn values are 1, 2, 3, ... in
# statement order, so a referring instance with key 1 gets linked to whichever
# short row happens to come first.
import itertools
SCHEMA = '''CREATE TABLE A (tag INTEGER, b_id UNIQUE_ID);
            CREATE TABLE B (tag INTEGER, id UNIQUE_ID);
            CREATE ROP REF_ID R1 FROM MC A (b_id) TO 1C B (id);'''
ROWS = ['INSERT INTO B VALUES (10);',      # id unset -> null, must never be referred to
        'INSERT INTO B VALUES (11);',      # id unset
        'INSERT INTO A VALUES (20, 1);']   # dangling: no B row says id = 1
results = set()
for perm in itertools.permutations(ROWS):
    got = links(load(SCHEMA, ''.join(perm), id_generator=xtuml.IntegerGenerator()))
    print('%-90s -> %s' % (' '.join(perm), got))
    results.add(repr(got))
print('expected: [[]] for every order (unset keys are null, A(b_id=1) dangles)')
sys.exit(1 if results != {'[[]]'} else 0)
