import sys; sys.path.insert(0, "<worktree>")
import logging
import xtuml
assert xtuml.__file__.startswith("<worktree>"), xtuml.__file__
logging.disable(logging.CRITICAL)

def load(*texts, **kw):
    l = xtuml.ModelLoader()
    for t in texts:
        l.input(t)
    return l.build_metamodel(**kw)

def links(m):
    """per association: sorted (referring tag, referred tag), checked in both directions"""
    out = []
    for ass in m.associations:
        fwd = sorted((a.tag, b.tag) for b, aset in ass.source_link.items() for a in aset)
        bwd = sorted((a.tag, b.tag) for a, bset in ass.target_link.items() for b in bset)
        assert fwd == bwd
        out.append(fwd)
    return out


# Identifiers are documented to be case insensitive and the loader accepts an
# association that spells a referential attribute differently from CREATE TABLE
# (populate_associations looks the attribute up case-insensitively).  But then
# no instance of the referring class is ever linked.
ROWS = 'INSERT INTO B VALUES (10, 5); INSERT INTO A VALUES (20, 5);'
same = load('''CREATE TABLE A (tag INTEGER, b_id INTEGER); CREATE TABLE B (tag INTEGER, id INTEGER);
               CREATE ROP REF_ID R1 FROM MC A (b_id) TO 1 B (id);''' + ROWS)
diff = load('''CREATE TABLE A (tag INTEGER, B_Id INTEGER); CREATE TABLE B (tag INTEGER, id INTEGER);
               CREATE ROP REF_ID R1 FROM MC A (b_id) TO 1 B (id);''' + ROWS)
tgt  = load('''CREATE TABLE A (tag INTEGER, b_id INTEGER); CREATE TABLE B (tag INTEGER, ID INTEGER);
               CREATE ROP REF_ID R1 FROM MC A (b_id) TO 1 B (id);''' + ROWS)
print('same spelling                      :', links(same))
print('referred attribute spelled ID / id :', links(tgt))
print('referring attribute spelled B_Id / b_id:', links(diff), ' expected [[(20, 10)]]')
print('   and the referential value is not stripped either:', diff.select_any('A').__dict__)
sys.exit(1 if links(diff) != links(same) else 0)
