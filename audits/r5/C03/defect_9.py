import sys; sys.path.insert(0, "<worktree>")
import logging
import xtuml
assert xtuml.__file__.startswith("<worktree>"), xtuml.__file__
logging.disable(logging.CRITICAL)

def load(*texts, **kw):
    l = xtuml.ModelLoader()
    for t in texts:
        l.input(t)
    return l.build_metamodel(**kw)

def links(m):
    """per association: sorted (referring tag, referred tag), checked in both directions"""
    out = []
    for ass in m.associations:
        fwd = sorted((a.tag, b.tag) for b, aset in ass.source_link.items() for a in aset)
        bwd = sorted((a.tag, b.tag) for a, bset in ass.target_link.items() for b in bset)
        assert fwd == bwd
        out.append(fwd)
    return out


# Duplicate identifying values in the referred class, referred end single-valued.
# The loader links the referring instance to every matching instance (connect
# without cardinality check).  Creating the same rows through the API, referred
# instances first, raises RelateException out of new() after linking only the
# first match, and leaves the half-linked instance in the metamodel.
SCHEMA = '''CREATE TABLE A (tag INTEGER, b_id INTEGER); CREATE TABLE B (tag INTEGER, id INTEGER);
            CREATE ROP REF_ID R1 FROM MC A (b_id) TO 1 B (id);'''
loaded = load(SCHEMA, 'INSERT INTO B VALUES (10, 1); INSERT INTO B VALUES (11, 1); INSERT INTO A VALUES (20, 1);')
api = load(SCHEMA)
api.new('B', tag=10, id=1)
api.new('B', tag=11, id=1)
err = None
try:
    api.new('A', tag=20, b_id=1)
except Exception as e:
    err = '%s: %s' % (type(e).__name__, e)
print('loader :', links(loaded))
print('API    :', links(api), '| raised', err, '| instances of A left behind:', len(api.select_many('A')))
sys.exit(1 if links(api) != links(loaded) or err else 0)
