import sys; sys.path.insert(0, "<worktree>")
import logging
import xtuml
assert xtuml.__file__.startswith("<worktree>"), xtuml.__file__
logging.disable(logging.CRITICAL)

def load(*texts, **kw):
    l = xtuml.ModelLoader()
    for t in texts:
        l.input(t)
    return l.build_metamodel(**kw)

def links(m):
    """per association: sorted (referring tag, referred tag), checked in both directions"""
    out = []
    for ass in m.associations:
        fwd = sorted((a.tag, b.tag) for b, aset in ass.source_link.items() for a in aset)
        bwd = sorted((a.tag, b.tag) for a, bset in ass.target_link.items() for b in bset)
        assert fwd == bwd
        out.append(fwd)
    return out


# Inferred-schema input: the class is defined from whichever INSERT statement of
# that class comes first, so the resulting metamodel depends on statement order
# (and therefore on how statements are spread over input calls / files and on
# the order in which a directory walk delivers the files).
def describe(*texts):
    try:
        m = load(*texts)
    except Exception as e:
        return '%s: %s' % (type(e).__name__, e)
    return [(c.kind, c.attributes, sorted(repr(sorted(i.__dict__.items())) for i in c.storage))
            for c in m.metaclasses.values()]

bad = 0
for a, b in [("INSERT INTO X (a) VALUES (1);", "INSERT INTO X (a, b) VALUES (1, 2);"),
             ("INSERT INTO X VALUES (1);", "INSERT INTO X VALUES (2.5);"),
             ("INSERT INTO X VALUES (1);", 'INSERT INTO X VALUES ("00000000-0000-0000-0000-000000000002");'),
             ("INSERT INTO X VALUES ('a');", "INSERT INTO X VALUES (1);")]:
    r1, r2 = describe(a, b), describe(b, a)
    print('%s  %s\n   this order : %s\n   swapped    : %s' % (a, b, r1, r2))
    if r1 != r2:
        bad += 1
print('expected: the same metamodel (or the same error) for both orders')
sys.exit(1 if bad else 0)
