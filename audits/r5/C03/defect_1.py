import sys; sys.path.insert(0, '<worktree>')
import logging
import xtuml
assert xtuml.__file__.startswith('<worktree>'), xtuml.__file__
logging.disable(logging.CRITICAL)

# Creating rows through the API with referential values goes wrong on every
# association whose two ends carry different phrases:
#   (i)   non-reflexive association          -> UnknownLinkException
#   (ii)  reflexive association              -> linked in the reverse direction
#   (iii) two associations with the same number and mirrored phrases (linked
#         reflexive association, tests/test_xtuml/test_phrase.py) -> linked
#         across the wrong association
# The loader links the very same rows correctly.

def links(m):
    '''{rel index: sorted (referring tag, referred tag)} from both link directions'''
    out = []
    for ass in m.associations:
        fwd = sorted((a.tag, b.tag) for b, aset in ass.source_link.items() for a in aset)
        bwd = sorted((a.tag, b.tag) for a, bset in ass.target_link.items() for b in bset)
        assert fwd == bwd
        out.append(fwd)
    return out

def load(text):
    l = xtuml.ModelLoader(); l.input(text); return l.build_metamodel()

bad = 0
def check(title, schema, rows, api):
    global bad
    expected = links(load(schema + rows))
    m = load(schema)
    try:
        api(m)
        got = links(m)
    except Exception as e:
        got = '%s: %s' % (type(e).__name__, e)
    print('%s\n   loader (expected, per association (referring, referred)): %s\n   API                                                      : %s' % (title, expected, got))
    if got != expected:
        bad += 1

check('(i) non-reflexive, phrases differ',
      '''CREATE TABLE A (tag INTEGER, b_id INTEGER); CREATE TABLE B (tag INTEGER, id INTEGER);
         CREATE ROP REF_ID R1 FROM MC A (b_id) PHRASE 'owns' TO 1 B (id) PHRASE 'is owned by';''',
      'INSERT INTO B VALUES (10, 5); INSERT INTO A VALUES (20, 5);',
      lambda m: (m.new('B', tag=10, id=5), m.new('A', tag=20, b_id=5)))

check('(ii) reflexive',
      '''CREATE TABLE N (tag INTEGER, id INTEGER, next_id INTEGER);
         CREATE ROP REF_ID R1 FROM 1C N (next_id) PHRASE 'precedes' TO 1C N (id) PHRASE 'succeeds';''',
      'INSERT INTO N VALUES (1, 1, 99); INSERT INTO N VALUES (2, 2, 1);',
      lambda m: (m.new('N', tag=1, id=1, next_id=99), m.new('N', tag=2, id=2, next_id=1)))

check('(iii) same number, mirrored phrases',
      '''CREATE TABLE L (tag INTEGER, one_id INTEGER, other_id INTEGER); CREATE TABLE C (tag INTEGER, id INTEGER);
         CREATE ROP REF_ID R1 FROM MC L (one_id) PHRASE 'one' TO 1 C (id) PHRASE 'other';
         CREATE ROP REF_ID R1 FROM MC L (other_id) PHRASE 'other' TO 1 C (id) PHRASE 'one';''',
      'INSERT INTO C VALUES (10, 7); INSERT INTO L VALUES (20, 7, 99);',
      lambda m: (m.new('C', tag=10, id=7), m.new('L', tag=20, one_id=7, other_id=99)))

# cloning takes the same path
schema = '''CREATE TABLE N (tag INTEGER, id INTEGER, next_id INTEGER);
            CREATE ROP REF_ID R1 FROM 1C N (next_id) PHRASE 'precedes' TO 1C N (id) PHRASE 'succeeds';'''
src = load(schema + 'INSERT INTO N VALUES (1, 1, 99); INSERT INTO N VALUES (2, 2, 1);')
dst = load(schema)
for inst in src.select_many('N'):
    dst.clone(inst)
print('(iv) clone of (ii)\n   source metamodel: %s\n   clone           : %s' % (links(src), links(dst)))
if links(src) != links(dst):
    bad += 1

sys.exit(1 if bad else 0)
