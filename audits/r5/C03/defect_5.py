import sys; sys.path.insert(0, "<worktree>")
import logging
import xtuml
assert xtuml.__file__.startswith("<worktree>"), xtuml.__file__
logging.disable(logging.CRITICAL)

def load(*texts, **kw):
    l = xtuml.ModelLoader()
    for t in texts:
        l.input(t)
    return l.build_metamodel(**kw)

def links(m):
    """per association: sorted (referring tag, referred tag), checked in both directions"""
    out = []
    for ass in m.associations:
        fwd = sorted((a.tag, b.tag) for b, aset in ass.source_link.items() for a in aset)
        bwd = sorted((a.tag, b.tag) for a, bset in ass.target_link.items() for b in bset)
        assert fwd == bwd
        out.append(fwd)
    return out


# A -> B -> C chain (as in every subtype / supertype hierarchy): B.id is the
# identifying attribute A refers to and at the same time B's own referential
# attribute towards C.  B's reference to C dangles (no C row).  The loader links
# A to B (b_id = 5 = B.id).  Creating the same rows through the API, referred
# instances first, or cloning the loaded instances into a fresh metamodel, does
# not: B's dangling referential value is thrown away (B.id reads None), so
# nothing can match it any more.
SCHEMA = '''CREATE TABLE A (tag INTEGER, b_id INTEGER);
            CREATE TABLE B (tag INTEGER, id INTEGER);
            CREATE TABLE C (tag INTEGER, id INTEGER);
            CREATE ROP REF_ID R1 FROM MC A (b_id) TO 1 B (id);
            CREATE ROP REF_ID R2 FROM 1C B (id) TO 1 C (id);'''
loaded = load(SCHEMA, 'INSERT INTO B VALUES (10, 5); INSERT INTO A VALUES (20, 5);')
api = load(SCHEMA)
api.new('B', tag=10, id=5)
api.new('A', tag=20, b_id=5)
cloned = load(SCHEMA)
for kind in ('C', 'B', 'A'):
    for inst in loaded.select_many(kind):
        cloned.clone(inst)
print('expected [R1, R2]         : [[(20, 10)], []]')
print('loader                    :', links(loaded))
print('API, referred first       :', links(api))
print('clone of the loaded model :', links(cloned))
sys.exit(1 if not (links(loaded) == links(api) == links(cloned)) else 0)
