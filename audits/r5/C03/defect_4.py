import sys; sys.path.insert(0, "<worktree>")
import logging
import xtuml
assert xtuml.__file__.startswith("<worktree>"), xtuml.__file__
logging.disable(logging.CRITICAL)

def load(*texts, **kw):
    l = xtuml.ModelLoader()
    for t in texts:
        l.input(t)
    return l.build_metamodel(**kw)

def links(m):
    """per association: sorted (referring tag, referred tag), checked in both directions"""
    out = []
    for ass in m.associations:
        fwd = sorted((a.tag, b.tag) for b, aset in ass.source_link.items() for a in aset)
        bwd = sorted((a.tag, b.tag) for a, bset in ass.target_link.items() for b in bset)
        assert fwd == bwd
        out.append(fwd)
    return out


# Referring value INTEGER 0 (not a null: only UNIQUE_ID 0 and '' are) that refers
# to an identifying attribute of type UNIQUE_ID holding 0.  The referring value is
# non-null and equal to the identifying value, so by the property the pair is
# linked.  The loader does not link it (compute_index_key drops referred
# instances whose key is "null"), the API does (MetaClass.new only looks at the
# referring side): loader and API disagree.
SCHEMA = '''CREATE TABLE A (tag INTEGER, b_id INTEGER); CREATE TABLE B (tag INTEGER, id UNIQUE_ID);
            CREATE ROP REF_ID R1 FROM MC A (b_id) TO 1 B (id);'''
loaded = load(SCHEMA, 'INSERT INTO B VALUES (10, 0); INSERT INTO A VALUES (20, 0);')
api = load(SCHEMA)
api.new('B', tag=10, id=0)
api.new('A', tag=20, b_id=0)
cloned = load(SCHEMA)
for kind in ('B', 'A'):
    for inst in api.select_many(kind):
        cloned.clone(inst)
print('expected by the property: [[(20, 10)]]')
print('loader                  :', links(loaded))
print('API, referred first     :', links(api))
print('clone of the API model  :', links(cloned))
sys.exit(1 if not (links(loaded) == links(api) == links(cloned) == [[(20, 10)]]) else 0)
