import sys; sys.path.insert(0, "<worktree>")
import logging
import xtuml
assert xtuml.__file__.startswith("<worktree>"), xtuml.__file__
logging.disable(logging.CRITICAL)

def load(*texts, **kw):
    l = xtuml.ModelLoader()
    for t in texts:
        l.input(t)
    return l.build_metamodel(**kw)

def links(m):
    """per association: sorted (referring tag, referred tag), checked in both directions"""
    out = []
    for ass in m.associations:
        fwd = sorted((a.tag, b.tag) for b, aset in ass.source_link.items() for a in aset)
        bwd = sorted((a.tag, b.tag) for a, bset in ass.target_link.items() for b in bset)
        assert fwd == bwd
        out.append(fwd)
    return out


# The same statements give different links depending on whether they are passed
# to input() or read from a file: files are opened with universal newlines, so
# a carriage return inside a string value is turned into a line feed, input()
# keeps it.  A string key containing CR that refers from a file to an instance
# given through input() (or the other way round) is no longer matched.
import os, tempfile
SCHEMA = '''CREATE TABLE A (tag INTEGER, b_name STRING); CREATE TABLE B (tag INTEGER, name STRING);
            CREATE ROP REF_ID R1 FROM MC A (b_name) TO 1 B (name);'''
B_ROW = "INSERT INTO B VALUES (10, 'x\ry');\n"
A_ROW = "INSERT INTO A VALUES (20, 'x\ry');\n"
d = tempfile.mkdtemp()
fa, fb = os.path.join(d, 'a.sql'), os.path.join(d, 'b.sql')
with open(fa, 'w', newline='') as f: f.write(A_ROW)
with open(fb, 'w', newline='') as f: f.write(B_ROW)

def run(*steps):
    l = xtuml.ModelLoader()
    l.input(SCHEMA)
    for kind, arg in steps:
        getattr(l, kind)(arg)
    return links(l.build_metamodel())

results = {
    'both rows through input()         ': run(('input', B_ROW), ('input', A_ROW)),
    'both rows from files              ': run(('filename_input', fb), ('filename_input', fa)),
    'B through input(), A from a file  ': run(('input', B_ROW), ('filename_input', fa)),
    'B from a file, A through input()  ': run(('filename_input', fb), ('input', A_ROW)),
}
for k, v in results.items():
    print(k, v)
print('expected: [[(20, 10)]] for every partition')
sys.exit(1 if any(v != [[(20, 10)]] for v in results.values()) else 0)
