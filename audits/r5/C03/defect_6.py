import sys; sys.path.insert(0, "<worktree>")
import logging
import xtuml
assert xtuml.__file__.startswith("<worktree>"), xtuml.__file__
logging.disable(logging.CRITICAL)

def load(*texts, **kw):
    l = xtuml.ModelLoader()
    for t in texts:
        l.input(t)
    return l.build_metamodel(**kw)

def links(m):
    """per association: sorted (referring tag, referred tag), checked in both directions"""
    out = []
    for ass in m.associations:
        fwd = sorted((a.tag, b.tag) for b, aset in ass.source_link.items() for a in aset)
        bwd = sorted((a.tag, b.tag) for a, bset in ass.target_link.items() for b in bset)
        assert fwd == bwd
        out.append(fwd)
    return out


# An attribute that occurs twice in the key list of one association (one
# referential attribute formalising two identifying attributes, or two
# referential attributes that must both equal one identifying attribute).
# Link.key_map is a dict built with zip(), so one of the two comparisons is
# silently dropped and pairs that do not match get linked.
m1 = load('''CREATE TABLE A (tag INTEGER, x INTEGER); CREATE TABLE B (tag INTEGER, i INTEGER, j INTEGER);
             CREATE ROP REF_ID R1 FROM MC A (x, x) TO 1 B (i, j);
             INSERT INTO B VALUES (10, 5, 5); INSERT INTO B VALUES (11, 6, 5); INSERT INTO B VALUES (12, 5, 6);
             INSERT INTO A VALUES (20, 5);''')
print('A(x) refers to B(i, j) with (x, x): expected [[(20, 10)]], got', links(m1))
m2 = load('''CREATE TABLE A (tag INTEGER, x INTEGER, y INTEGER); CREATE TABLE B (tag INTEGER, i INTEGER);
             CREATE ROP REF_ID R1 FROM MC A (x, y) TO 1 B (i, i);
             INSERT INTO B VALUES (10, 5); INSERT INTO B VALUES (11, 6);
             INSERT INTO A VALUES (20, 5, 5); INSERT INTO A VALUES (21, 5, 6); INSERT INTO A VALUES (22, 6, 5);''')
print('A(x, y) refers to B(i, i)         : expected [[(20, 10)]], got', links(m2))
sys.exit(1 if links(m1) != [[(20, 10)]] or links(m2) != [[(20, 10)]] else 0)
