import sys; sys.path.insert(0, '<worktree>')
import xtuml
assert xtuml.__file__.startswith('<worktree>')
from xtuml import OrderedSet, QuerySet

# An ordered set must compare equal EXACTLY to ordered collections holding the
# same elements in the same order.  A list/tuple that mentions an element more
# than once holds other contents (different length, different sequence), yet
# it compares equal, in both operand orders, and != says False.
bad = 0
cases = [
    (OrderedSet([1, 2]), [1, 2, 1]),
    (OrderedSet([1, 2]), (1, 1, 2)),
    (QuerySet(['a']),    ['a', 'a', 'a']),
]
for s, other in cases:
    for label, got in (('%r == %r' % (s, other), s == other),
                       ('%r == %r' % (other, s), other == s),
                       ('not (%r != %r)' % (s, other), not (s != other))):
        expected = False   # len differs: len(s) != len(other), list(s) != list(other)
        print('%-45s expected %-5s got %s' % (label, expected, got))
        if got != expected:
            bad += 1
    print('   len(s)=%d len(other)=%d list(s)==list(other): %s'
          % (len(s), len(other), list(s) == list(other)))
sys.exit(1 if bad else 0)
