import sys; sys.path.insert(0, '<worktree>')
import xtuml
assert xtuml.__file__.startswith('<worktree>')
from xtuml import OrderedSet, QuerySet

# == and != must answer "not equal" for anything that is not an ordered
# collection holding the same elements in the same order.  Instead the
# comparison raises TypeError whenever the other operand
#   (a) is an ordered collection that holds an unhashable element, or
#   (b) is not iterable at all (None, a number, an instance, ...),
# because __eq__ first builds OrderedSet(iter(other)).
bad = 0
def probe(label, fn, expected):
    global bad
    try:
        got = fn()
    except Exception as e:
        got = 'raised %s: %s' % (type(e).__name__, e)
    print('%-48s expected %-5s got %s' % (label, expected, got))
    if got != expected:
        bad += 1

s = QuerySet([1, 2])
probe('QuerySet([1, 2]) == [[1], [2]]', lambda: s == [[1], [2]], False)
probe('QuerySet([1, 2]) != [1, {}]', lambda: s != [1, {}], True)
probe('[[1], [2]] == QuerySet([1, 2])', lambda: [[1], [2]] == s, False)
probe('QuerySet([1, 2]) == None', lambda: s == None, False)
probe('QuerySet([1, 2]) != None', lambda: s != None, True)
probe('OrderedSet() == 0', lambda: OrderedSet() == 0, False)
probe('QuerySet([1, 2]) in [None, QuerySet([1, 2])]', lambda: s in [None, QuerySet([1, 2])], True)
sys.exit(1 if bad else 0)
