import sys; sys.path.insert(0, '<worktree>')
import xtuml
assert xtuml.__file__.startswith('<worktree>')
from xtuml import OrderedSet

# Equality with a built-in set / frozenset is decided by the hash-iteration
# order of that unordered operand.  Two ordered sets holding the same elements
# {1, 2} therefore give different answers against the very same set {1, 2}:
# whichever reading one takes (an unordered set is not an "ordered collection
# holding the same elements in the same order" -> always unequal; or set
# semantics as for the inherited <= and >= -> always equal) one of the two
# answers is wrong.  With str elements the answer changes with PYTHONHASHSEED.
a = OrderedSet([1, 2])
b = OrderedSet([2, 1])
plain = {1, 2}
r = [(a == plain), (b == plain), (a == frozenset(plain)), (b == frozenset(plain))]
print('OrderedSet([1, 2]) == {1, 2}            ->', r[0])
print('OrderedSet([2, 1]) == {1, 2}            ->', r[1])
print('OrderedSet([1, 2]) == frozenset({1, 2}) ->', r[2])
print('OrderedSet([2, 1]) == frozenset({1, 2}) ->', r[3])
print('b <= {1, 2} and b >= {1, 2}             ->', (b <= plain) and (b >= plain),
      '(mutual subsets, yet b == {1, 2} is', r[1], ')')
print('expected: the same answer for both ordered sets (same elements, same unordered operand)')
bad = (r[0] != r[1]) or (r[2] != r[3])
sys.exit(1 if bad else 0)
