import sys; sys.path.insert(0, '<worktree>')
# Defect 2 (borderline -- clause nodes, not statement/expression nodes proper):
# a node whose production ENDS in an empty non-terminal (empty block of an
# elif/else clause, event specification without data) takes its end position
# from the lexer, which has already read the look-ahead token.  The recorded
# "last token" and the source substring therefore include the NEXT token
# (and everything in front of it: blanks, comments, line breaks).
import logging; logging.disable(logging.CRITICAL)
import xtuml
from bridgepoint import oal
assert xtuml.__file__.startswith('<worktree>'), xtuml.__file__
assert oal.__file__.startswith('<worktree>'), oal.__file__


def linecol(text, pos):
    return text.count('\n', 0, pos) + 1, pos - text.rfind('\n', 0, pos)


bad = 0


def check(what, node, text, expected_substring):
    global bad
    start = text.index(expected_substring)
    end = start + len(expected_substring)
    p = node.position
    exp = (linecol(text, start), linecol(text, end - 1), expected_substring)
    got = ((p.start_line, p.start_column), (p.end_line, p.end_column), node.character_stream)
    ok = exp == got
    print(what)
    print('    expected : first %s last %s substring %r' % exp)
    print('    recorded : first %s last %s substring %r   %s' % (got + ('ok' if ok else '<-- VIOLATION',)))
    bad += not ok


text = "if (a)\n  x = 1;\nelif (b) then\n  // nothing to do\nelse\n  /* nothing */\nend if;"
ifn = oal.parse(text).block.statement_list.children[0]
check('ElIfNode with an empty block', ifn.elif_list.children[0], text, "(b) then")
check('ElseNode with an empty block', ifn.else_clause, text, "else")

text = "generate E1:'go' to\n   self;"
gen = oal.parse(text).block.statement_list.children[0]
check('EventSpecNode without event data', gen.event_specification, text, "E1:'go'")

sys.exit(1 if bad else 0)
