import sys; sys.path.insert(0, '<worktree>')
# Defect 1: a node whose LAST token spans several lines (a two-word 'end if' /
# 'end for' / 'end while' written across a line break, or a ticked relationship
# phrase containing a line break) records the line on which that token STARTS as
# its end_line, while end_column (and character_stream) refer to where it ENDS.
import logging; logging.disable(logging.CRITICAL)
import xtuml
from bridgepoint import oal
assert xtuml.__file__.startswith('<worktree>'), xtuml.__file__
assert oal.__file__.startswith('<worktree>'), oal.__file__


def linecol(text, pos):
    return text.count('\n', 0, pos) + 1, pos - text.rfind('\n', 0, pos)


CASES = [
    ("if (x)\n  y = 1;\nend\nif;\nz = 2;",                     oal.IfNode),
    ("while (x)\n  y = 1;\nend\n\n  while;",                    oal.WhileNode),
    ("for each a in b\n  y = 1;\nend\nfor;",                    oal.ForEachNode),
    ("relate a to b across R1.'is\nowned by';\nz = 2;",         oal.RelateNode),
    ("unrelate a from b across R1.'is\nowned by';",             oal.UnrelateNode),
]

bad = 0
for text, cls in CASES:
    root = oal.parse(text)
    node = root.block.statement_list.children[0]
    assert isinstance(node, cls)
    p = node.position
    exp_start = linecol(text, p.start_stream)
    exp_end = linecol(text, p.end_stream - 1)     # last character of the last token
    got_start = (p.start_line, p.start_column)
    got_end = (p.end_line, p.end_column)
    ok = exp_start == got_start and exp_end == got_end
    print('%-13s text=%r' % (cls.__name__, text))
    print('    source substring     : %r' % node.character_stream)
    print('    expected (line, col) : first token %s, last token ends %s' % (exp_start, exp_end))
    print('    recorded (line, col) : first token %s, last token ends %s   %s'
          % (got_start, got_end, 'ok' if ok else '<-- VIOLATION (end_line)'))
    bad += not ok

sys.exit(1 if bad else 0)
