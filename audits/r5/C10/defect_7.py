import sys; sys.path.insert(0, '<worktree>')
# Constructor keywords share a namespace with the named parameters of
# MetaModel.new(self, kind, *args, **kwargs) and MetaClass.new(self, ...):
# an attribute called Kind (or Self) can be given under every spelling except
# the all-lower-case one.
import xtuml
assert xtuml.__file__.startswith('<worktree>')

m = xtuml.MetaModel()
mc = m.define_class('A', [('Id', 'INTEGER'), ('Kind', 'STRING'), ('Self', 'STRING')])
bad = 0
for label, ctor, name in (("m.new('A', %s='x')", lambda kw: m.new('A', **kw), 'Kind'),
                          ("m.new('A', %s='x')", lambda kw: m.new('A', **kw), 'Self'),
                          ("metaclass.new(%s='x')", lambda kw: mc.new(**kw), 'Self')):
    for sp in (name, name.upper(), name.lower()):
        try:
            got = getattr(ctor({sp: 'x'}), name)
        except TypeError as e:
            got = 'TypeError: %s' % e
        print('%-24s expected %s=%r got %r %s' % (label % sp, name, 'x', got, '' if got == 'x' else '<-- VIOLATION'))
        bad += got != 'x'
sys.exit(1 if bad else 0)
