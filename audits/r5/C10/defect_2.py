import sys; sys.path.insert(0, '<worktree>')
# Constructor keyword for a referential attribute: only the declared spelling
# is recognised as referential (relates the new instance); any other spelling
# raises and leaves a half-built instance in the pool.
import xtuml
assert xtuml.__file__.startswith('<worktree>')

m = xtuml.MetaModel()
m.define_class('A', [('Id', 'INTEGER')])
m.define_class('B', [('Id', 'INTEGER'), ('A_Id', 'INTEGER')])
m.define_association('R1', 'B', ['A_Id'], True, True, '',
                           'A', ['Id'], False, False, '').formalize()
a = m.new('A', Id=1)

bad = 0
for n, sp in enumerate(('A_Id', 'a_id', 'A_ID')):
    before = len(m.select_many('B'))
    try:
        b = m.new('B', **{'Id': 10 + n, sp: 1})
        got = 'A_Id=%r, related to a: %r' % (b.A_Id, xtuml.navigate_one(b).A[1]() is a)
    except xtuml.MetaException as e:
        got = 'MetaException(%s); instances of B added: %d' % (e, len(m.select_many('B')) - before)
    want = 'A_Id=1, related to a: True'
    print("new('B', %s=1)\n   expected %s\n   got      %s %s" % (sp, want, got, '' if got == want else '<-- VIOLATION'))
    bad += got != want

sys.exit(1 if bad else 0)
