import sys; sys.path.insert(0, '<worktree>')
# Association keys written in another letter case than the class declaration
# (CREATE ROP ... B (a_id) ... A (id)  vs  CREATE TABLE B (.., A_Id ..)).
# The library's own test_case_sensitivity declares associations this way.
import xtuml
assert xtuml.__file__.startswith('<worktree>')

bad = []
def expect(label, got, want):
    ok = got == want
    print('%-58s expected %-6r got %-6r %s' % (label, want, got, '' if ok else '<-- VIOLATION'))
    if not ok:
        bad.append(label)

# --- part 1: through the loader -------------------------------------------
src = '''
CREATE TABLE A (Id INTEGER);
CREATE TABLE B (Id INTEGER, A_Id INTEGER);
CREATE ROP REF_ID R1 FROM MC B (a_id) TO 1 A (id);
INSERT INTO A VALUES (1);
INSERT INTO B VALUES (10, 1);
'''
l = xtuml.ModelLoader()
l.input(src)
m = l.build_metamodel()
b = m.select_any('B')
a = m.select_any('A')
for sp in ('A_Id', 'a_id', 'A_ID'):
    expect('loaded  b.%s' % sp, getattr(b, sp), 1)
for sp in ('A_Id', 'a_id', 'A_ID'):
    expect('loaded  select B where %s=1 (count)' % sp,
           len(m.select_many('B', xtuml.where_eq(**{sp: 1}))), 1)
expect('loaded  b->A[R1] is a', xtuml.navigate_one(b).A[1]() is a, True)

# --- part 2: through the api (new / relate / write / serialize) ------------
m = xtuml.MetaModel()
m.define_class('A', [('Id', 'INTEGER')])
m.define_class('B', [('Id', 'INTEGER'), ('A_Id', 'INTEGER')])
m.define_association('R1', 'B', ['a_id'], True, True, '',
                           'A', ['Id'], False, False, '').formalize()
a = m.new('A', Id=1)
b = m.new('B', Id=10)
xtuml.relate(b, a, 1)
for sp in ('A_Id', 'a_id', 'A_ID'):
    expect('related b.%s' % sp, getattr(b, sp), 1)
expect('related serialized value of A_Id', 
       xtuml.serialize_instance(b).split('\n')[2].strip().split(' ')[0], '1')
try:
    b.A_ID = 5          # referential: must be refused under every spelling
    refused = False
except xtuml.MetaException:
    refused = True
expect('write b.A_ID = 5 is refused (as b.a_id = 5 is)', refused, True)

sys.exit(1 if bad else 0)
