import sys; sys.path.insert(0, '<worktree>')
# Class names in the navigation syntax one(inst).KIND[rel]() are resolved by
# NavChain.__getattr__, which python only calls when normal lookup fails.  A
# class whose name, in some letter case, equals a real attribute of NavChain
# (nav, handle) can be navigated to under every spelling except that one.
import xtuml
from xtuml import navigate_one as one
assert xtuml.__file__.startswith('<worktree>')

bad = 0
for kind, spellings in (('Nav', ('Nav', 'NAV', 'nav')), ('HANDLE', ('HANDLE', 'Handle', 'handle'))):
    m = xtuml.MetaModel()
    m.define_class(kind, [('Id', 'INTEGER')])
    m.define_class('B', [('Id', 'INTEGER'), ('N_Id', 'INTEGER')])
    m.define_association('R1', 'B', ['N_Id'], True, True, '',
                               kind, ['Id'], False, False, '').formalize()
    n = m.new(kind.lower(), Id=1)
    b = m.new('B', Id=2, N_Id=1)
    for sp in spellings:
        try:
            got = getattr(one(b), sp)[1]() is n
        except Exception as e:
            got = '%s: %s' % (type(e).__name__, e)
        print('class %-6s  one(b).%s[1]() is n   expected True got %r %s'
              % (kind, sp, got, '' if got is True else '<-- VIOLATION'))
        bad += got is not True
sys.exit(1 if bad else 0)
