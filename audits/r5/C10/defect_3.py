import sys; sys.path.insert(0, '<worktree>')
# Instances that exist before an association is formalized (the flow of the
# library's own test_case_sensitivity: new(), define_association(),
# batch_relate(), formalize()) keep a private copy of the referential value in
# the instance dict.  The declared spelling reads through the property, every
# other spelling reads (and writes!) the private copy.
import xtuml
assert xtuml.__file__.startswith('<worktree>')

bad = []
def expect(label, got, want):
    ok = got == want
    print('%-50s expected %-6r got %-6r %s' % (label, want, got, '' if ok else '<-- VIOLATION'))
    if not ok:
        bad.append(label)

m = xtuml.MetaModel()
m.define_class('A', [('Id', 'INTEGER')])
m.define_class('B', [('Id', 'INTEGER'), ('A_Id', 'INTEGER')])
a = m.new('A', Id=1)
b = m.new('B', Id=10, A_Id=1)
ass = m.define_association('R1', 'B', ['A_Id'], True, True, '',
                                 'A', ['Id'], False, False, '')
ass.batch_relate()
ass.formalize()
expect('b->A[R1] is a', xtuml.navigate_one(b).A[1]() is a, True)

a.ID = 7      # write the identifying attribute; the referential follows it
for sp in ('A_Id', 'a_id', 'A_ID'):
    expect('after a.ID = 7: b.%s' % sp, getattr(b, sp), 7)
for sp in ('A_Id', 'a_id'):
    expect('select B where %s=7 (count)' % sp,
           len(m.select_many('B', xtuml.where_eq(**{sp: 7}))), 1)

try:
    b.a_id = 99
    want = 99       # the write was accepted: every spelling must now read it
except xtuml.MetaException:
    want = 7        # the write was refused: nothing changed
print('write b.a_id = 99 was %s' % ('accepted' if want == 99 else 'refused'))
for sp in ('A_Id', 'a_id', 'A_ID'):
    expect('after b.a_id = 99: b.%s' % sp, getattr(b, sp), want)
expect('serialized value of A_Id',
       xtuml.serialize_instance(b).split('\n')[2].strip().split(' ')[0], str(want))

sys.exit(1 if bad else 0)
