# -*- coding: utf-8 -*-
import sys; sys.path.insert(0, '<worktree>')
# Names are matched with str.upper(), which is not a case-insensitive
# comparison for every letter the loader's identifier rule ([A-Za-z_][\w_]*,
# \w is unicode aware) admits: the lower-case spelling of U+0130 and the
# upper-case spelling U+1E9E of sharp s do not match their declared names.
import xtuml
assert xtuml.__file__.startswith('<worktree>')

l = xtuml.ModelLoader()
l.input(u"CREATE TABLE A (aİ INTEGER, aß INTEGER); INSERT INTO A VALUES (5, 6);")
m = l.build_metamodel()
i = m.select_any('A')
bad = 0
for declared, want, sps in ((u'aİ', 5, (u'aİ', u'Aİ', u'aİ'.lower())),
                            (u'aß', 6, (u'aß', u'Aß', u'ASS', u'Aẞ'))):
    for sp in sps:
        assert sp.lower() == declared.lower() or sp.upper() == declared.upper()
        try:
            got = getattr(i, sp)
        except AttributeError:
            got = 'AttributeError'
        print('declared %s, read as %s: expected %r got %r %s'
              % (ascii(declared), ascii(sp), want, got, '' if got == want else '<-- VIOLATION'))
        bad += got != want
sys.exit(1 if bad else 0)
