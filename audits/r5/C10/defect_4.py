import sys; sys.path.insert(0, '<worktree>')
# MetaClass.delete_attribute() compares the name as typed; every other entry
# point taking an attribute name (attribute_type, getattr, where_eq, new)
# resolves it case-insensitively.
import xtuml
assert xtuml.__file__.startswith('<worktree>')

bad = 0
for sp in ('Name', 'NAME', 'name'):
    m = xtuml.MetaModel()
    mc = m.define_class('A', [('Id', 'INTEGER'), ('Name', 'STRING')])
    resolves = mc.attribute_type(sp) == 'STRING'
    mc.delete_attribute(sp)
    got = mc.attribute_names
    want = ['Id']
    print('attribute_type(%r) resolves: %s; after delete_attribute(%r): expected %r got %r %s'
          % (sp, resolves, sp, want, got, '' if got == want else '<-- VIOLATION'))
    bad += got != want
sys.exit(1 if bad else 0)
