import sys; sys.path.insert(0, '<worktree>')
# Two columns whose names differ only in letter case are accepted (a second
# class that differs only in case is rejected), and the loader then stores two
# values for what every other entry point treats as one attribute.
import xtuml
assert xtuml.__file__.startswith('<worktree>')

l = xtuml.ModelLoader()
l.input("CREATE TABLE A (Id INTEGER, ID INTEGER); INSERT INTO A VALUES (1, 2);")
try:
    m = l.build_metamodel()
except Exception as e:
    print('rejected: %s' % e)      # fine: the names are the same name
    sys.exit(0)
a = m.select_any('A')
reads = dict((sp, getattr(a, sp)) for sp in ('Id', 'ID', 'id', 'iD'))
print('expected: load refused, or one value under every spelling')
print('got     : %r   instance dict %r' % (reads, a.__dict__))
a.id = 7
reads2 = dict((sp, getattr(a, sp)) for sp in ('Id', 'ID', 'id', 'iD'))
print('after a.id = 7 expected 7 under every spelling, got %r' % reads2)
sys.exit(1 if len(set(reads.values())) > 1 or set(reads2.values()) != {7} else 0)
