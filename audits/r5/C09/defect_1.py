import sys; sys.path.insert(0, '<worktree>')
# A navigation chain that has taken at least one hop is single-use: the second
# invocation of the very same chain returns nothing although the links are
# unchanged.  (A chain without a hop, many(a)() or many(queryset)(), can be
# invoked any number of times.)
import xtuml
assert xtuml.__file__.startswith('<worktree>')
from xtuml import navigate_many as many, navigate_any as any_, relate, where_eq

l = xtuml.ModelLoader()
l.input('''
CREATE TABLE A (id INTEGER);
CREATE TABLE B (id INTEGER, a_id INTEGER, n INTEGER);
CREATE ROP REF_ID R1 FROM MC B (a_id) TO 1C A (id);
''')
m = l.build_metamodel()
a = m.new('A', id=1)
bs = [m.new('B', id=i, n=i % 2) for i in range(4)]
for b in bs:
    relate(b, a, 1)

bad = 0

chain = many(a).B[1]
first = [b.id for b in chain()]
second = [b.id for b in chain()]
print('many(a).B[1] invoked twice, model unchanged in between')
print('  expected both times:', [b.id for b in bs])
print('  1st call           :', first)
print('  2nd call           :', second)
bad |= second != [b.id for b in bs]

chain = many(a).B[1]
even = [b.id for b in chain(where_eq(n=0))]
odd = [b.id for b in chain(where_eq(n=1))]
print('same chain, two different filters')
print('  expected n=0 -> [0, 2], n=1 -> [1, 3]')
print('  got      n=0 -> %s, n=1 -> %s' % (even, odd))
bad |= odd != [1, 3]

chain = any_(a).B[1]
x, y = chain(), chain()
print('any(a).B[1] invoked twice: expected the same instance twice, got', x and x.id, y and y.id)
bad |= y is not x

sys.exit(1 if bad else 0)
