import sys; sys.path.insert(0, '<worktree>')
# Attribute names are documented to be case insensitive (Class docstring,
# MetaModel docstring) and the loader accepts an association whose key is
# spelled with another case than the column.  An equality filter (or an
# ordering) on such a referential attribute then gives different answers
# depending on how the name is spelled in the query.
import logging; logging.disable(logging.CRITICAL)
import xtuml
assert xtuml.__file__.startswith('<worktree>')
from xtuml import relate, where_eq, order_by

l = xtuml.ModelLoader()
l.input('''
CREATE TABLE A (id INTEGER);
CREATE TABLE B (id INTEGER, A_ID INTEGER);
CREATE ROP REF_ID R1 FROM MC B (a_id) TO 1C A (id);
''')
m = l.build_metamodel()
a1 = m.new('A', id=1)
a2 = m.new('A', id=2)
b1 = m.new('B', id=10)
b2 = m.new('B', id=11)
relate(b1, a2, 1)
relate(b2, a1, 1)

ids = lambda s: [b.id for b in s]
bad = 0

q_decl = ids(m.select_many('B', where_eq(A_ID=2)))    # spelled as in CREATE TABLE
q_rop = ids(m.select_many('B', where_eq(a_id=2)))     # spelled as in CREATE ROP
print('b1 (id 10) is related to the A with id 2 across R1')
print('  expected where_eq(A_ID=2) == where_eq(a_id=2) == [10]')
print('  where_eq(A_ID=2) ->', q_decl)
print('  where_eq(a_id=2) ->', q_rop)
bad |= q_decl != [10] or q_rop != [10]

o_decl = ids(m.select_many('B', order_by('A_ID')))
o_rop = ids(m.select_many('B', order_by('a_id')))
print('  expected order_by(A_ID) == order_by(a_id) == [11, 10]')
print('  order_by(A_ID)   ->', o_decl)
print('  order_by(a_id)   ->', o_rop)
bad |= o_decl != [11, 10] or o_rop != [11, 10]

sys.exit(1 if bad else 0)
