import sys; sys.path.insert(0, '<worktree>')
# LOWER CONFIDENCE (odd input).  check_subtype_integrity does not count but raises
# UnknownLinkException when the supertype/subtype ROPs carry phrases:
# navigate_subtype (xtuml/meta.py) walks the links of the supertype but navigates
# them without their phrase.
import logging
import xtuml
assert xtuml.__file__.startswith('<worktree>')
logging.disable(logging.CRITICAL)

TEXT = '''
CREATE TABLE S (id INTEGER);
CREATE TABLE T1 (id INTEGER);
CREATE TABLE T2 (id INTEGER);
CREATE ROP REF_ID R1 FROM 1C T1 (id) %s TO 1 S (id) %s;
CREATE ROP REF_ID R1 FROM 1C T2 (id) %s TO 1 S (id) %s;
INSERT INTO S VALUES (1);
INSERT INTO S VALUES (2);
INSERT INTO S VALUES (3);
INSERT INTO T1 VALUES (1);
INSERT INTO T2 VALUES (2);
'''
def run(p1, p2):
    l = xtuml.ModelLoader()
    l.input(TEXT % (p1, p2, p1, p2))
    m = l.build_metamodel()
    try:
        return xtuml.check_subtype_integrity(m, 'S', 1)
    except Exception as e:
        return repr(e)

plain = run('', '')
phrased = run("PHRASE 'is a'", "PHRASE 'is specialised by'")
print('expected: 1 (S(3) has no subtype instance)')
print('without phrases:', plain)
print('with phrases   :', phrased)
sys.exit(1 if phrased != 1 else 0)
