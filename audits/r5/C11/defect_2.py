import sys; sys.path.insert(0, '<worktree>')
# Giving the same association number (or class) more than once on the command line
# makes main() count that part once per occurrence, so the reported number is no
# longer "exactly the corresponding part".  (-k A -k a: key letters are case
# insensitive, so that is the same class twice as well.)
import logging, os, tempfile
import xtuml
import xtuml.consistency_check as cc
import bridgepoint.consistency_check as bcc
assert xtuml.__file__.startswith('<worktree>')
logging.disable(logging.CRITICAL)

TEXT = '''
CREATE TABLE A (id INTEGER);
CREATE TABLE B (id INTEGER, a_id INTEGER);
CREATE UNIQUE INDEX I1 ON A (id);
CREATE ROP REF_ID R1 FROM MC B (a_id) TO 1 A (id);
INSERT INTO A VALUES (1);
INSERT INTO A VALUES (1);
INSERT INTO B VALUES (1, 2);
'''
fn = os.path.join(tempfile.mkdtemp(), 'm.sql')
with open(fn, 'w') as f:
    f.write(TEXT)

# R1 holds one violation (B(1) has no A), class A holds one (repeated identifier)
once_r = cc.main(['-r', '1', '-k', 'B', fn])
twice_r = cc.main(['-r', '1', '-r', '1', '-k', 'B', fn])
once_k = cc.main(['-r', '9', '-k', 'A', fn])
twice_k = cc.main(['-r', '9', '-k', 'A', '-k', 'a', fn])
print('-r 1        -> %d (expected 1)' % once_r)
print('-r 1 -r 1   -> %d (expected 1, the part of R1)' % twice_r)
print('-k A        -> %d (expected 1)' % once_k)
print('-k A -k a   -> %d (expected 1, the part of class A)' % twice_k)
sys.exit(1 if (twice_r, twice_k) != (1, 1) else 0)
