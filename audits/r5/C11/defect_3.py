import sys; sys.path.insert(0, '<worktree>')
# A ROP whose FROM-side (referential) key is spelled in a different case than the
# column in CREATE TABLE is accepted by the loader (the key check is case
# insensitive) but no link is ever populated for it: every instance is reported as
# lacking its partner although the keys in the file match, and the tool exits 1 on a
# model without violations.
import logging, os, subprocess, tempfile
import xtuml
assert xtuml.__file__.startswith('<worktree>')
logging.disable(logging.CRITICAL)

TEXT = '''
CREATE TABLE A (id INTEGER);
CREATE TABLE B (id INTEGER, a_id INTEGER);
CREATE ROP REF_ID R1 FROM MC B (%s) TO 1 A (id);
INSERT INTO A VALUES (1);
INSERT INTO B VALUES (1, 1);
'''

def run(spelling):
    fn = os.path.join(tempfile.mkdtemp(), 'm.sql')
    with open(fn, 'w') as f:
        f.write(TEXT % spelling)
    m = xtuml.load_metamodel(fn)
    env = dict(os.environ, PYTHONPATH='<worktree>')
    rc = subprocess.run([sys.executable, '-W', 'ignore', '-m', 'xtuml.consistency_check', fn],
                        env=env, capture_output=True).returncode
    return xtuml.check_association_integrity(m), m.is_consistent(), rc

print('expected: B(1) has exactly one A (a_id=1 matches id=1): 0 violations, consistent, exit 0')
same = run('a_id')
other = run('A_ID')
print('key spelled like the column (a_id): violations=%d consistent=%s exit=%d' % same)
print('key spelled in another case (A_ID): violations=%d consistent=%s exit=%d' % other)
sys.exit(1 if other != (0, True, 0) else 0)
