import sys; sys.path.insert(0, '<worktree>')
# LOWER CONFIDENCE (depends on whether a deleted instance still counts as a partner).
# After xtuml.delete(a, disconnect=False) the instance a is no longer part of the
# model, but check_link_integrity counts it as a partner of b because it only looks
# at len(link.navigate(b)).  b's unconditional end has no partner in the model any
# more, yet 0 violations are reported and is_consistent() is True; the same model
# written out and loaded again reports the violation.
import logging
import xtuml
assert xtuml.__file__.startswith('<worktree>')
logging.disable(logging.CRITICAL)

m = xtuml.MetaModel()
m.define_class('A', [('id', 'INTEGER')])
m.define_class('B', [('id', 'INTEGER'), ('a_id', 'INTEGER')])
m.define_association(1, 'B', ['a_id'], True, True, '', 'A', ['id'], False, False, '').formalize()
a = m.new('A', id=1)
b = m.new('B', id=1)
xtuml.relate(b, a, 1)
assert m.is_consistent()
xtuml.delete(a, disconnect=False)

got = xtuml.check_association_integrity(m)
loader = xtuml.ModelLoader()
loader.input(xtuml.serialize(m))
again = xtuml.check_association_integrity(loader.build_metamodel())
print('instances of A in the model      :', len(m.select_many('A')))
print('violations reported              : %d (expected 1: B(1) --R1--> A has no partner in the model)' % got)
print('is_consistent                    :', m.is_consistent(), '(expected False)')
print('same model after serialize + load: %d' % again)
sys.exit(1 if got != 1 else 0)
