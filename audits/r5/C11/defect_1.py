import sys; sys.path.insert(0, '<worktree>')
# A null identifying value is not counted when the identifier (CREATE UNIQUE INDEX,
# define_unique_identifier, or the TO-keys of a ROP) spells the attribute with a
# different case than the class definition does.  Everything else in the library
# (attribute access, named INSERTs, ROP key validation, MetaModel docstring) treats
# attribute names as case insensitive, and the duplicate half of the very same check
# does work for such an identifier.
import logging, os, tempfile
import xtuml
import xtuml.consistency_check as cc
assert xtuml.__file__.startswith('<worktree>')
logging.disable(logging.CRITICAL)

TEXT = '''
CREATE TABLE A (Id INTEGER, Name STRING);
CREATE UNIQUE INDEX I1 ON A (%s);
INSERT INTO A (Name) VALUES ('x');      -- Id is null
INSERT INTO A (Id, Name) VALUES (7, 'y');
INSERT INTO A (Id, Name) VALUES (7, 'z'); -- repeats the identifier of the previous one
'''

def run(spelling):
    l = xtuml.ModelLoader()
    l.input(TEXT % spelling)
    m = l.build_metamodel()
    fn = os.path.join(tempfile.mkdtemp(), 'm.sql')
    with open(fn, 'w') as f:
        f.write(TEXT % spelling)
    return xtuml.check_uniqueness_constraint(m), cc.main([fn])

expected = 2   # one null identifying value + one repeated identifier
same = run('Id')
other = run('ID')
print('expected identifier violations           :', expected)
print('index spelled like the column  (Id)       :', same)
print('index spelled in another case  (ID)       :', other)

# the same through the API, here the model is reported consistent although it is not
m = xtuml.MetaModel()
m.define_class('A', [('Id', 'INTEGER')])
m.define_unique_identifier('A', 1, 'id')
a = m.new('A')
a.Id = None
print('API: null identifying value, is_consistent:', m.is_consistent(), '(expected False)')

bad = other != (expected, expected) or m.is_consistent()
sys.exit(1 if bad else 0)
