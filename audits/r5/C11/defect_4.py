import sys; sys.path.insert(0, '<worktree>')
# LOWER CONFIDENCE.  An association whose number is written with a leading zero in
# the file (REF_ID R01, accepted by the lexer rule R[0-9]+) can not be selected with
# -r: the option is parsed as an int and turned back into 'R1', which is compared as
# a string with 'R01'.  The unrestricted check sees the violation, the check
# restricted to association number 1 reports nothing and exits 0.
import logging, os, tempfile
import xtuml
import xtuml.consistency_check as cc
assert xtuml.__file__.startswith('<worktree>')
logging.disable(logging.CRITICAL)

TEXT = '''
CREATE TABLE A (id INTEGER);
CREATE TABLE B (id INTEGER, a_id INTEGER);
CREATE ROP REF_ID R01 FROM MC B (a_id) TO 1 A (id);
INSERT INTO B VALUES (1, 1);
'''
fn = os.path.join(tempfile.mkdtemp(), 'm.sql')
with open(fn, 'w') as f:
    f.write(TEXT)
everything = cc.main(['-k', 'A', fn])
r1 = cc.main(['-k', 'A', '-r', '1', fn])
r01 = cc.main(['-k', 'A', '-r', '01', fn])
print('unrestricted: %d (expected 1)' % everything)
print('-r 1        : %d (expected 1, R01 is the only association and it is number 1)' % r1)
print('-r 01       : %d (expected 1)' % r01)
sys.exit(1 if (r1, r01) != (1, 1) else 0)
