import sys; sys.path.insert(0, '<worktree>')
DOC = '''
defect 4: the same referential attribute used as FROM-key of several hundred
associations plus a positional INSERT that stops before that column:
build_metamodel() fails with RecursionError (the property getters installed by
Association.formalize() chain through alt_prop, one level per association).
'''
import logging
import xtuml
assert xtuml.__file__.startswith('<worktree>'), xtuml.__file__
logging.disable(logging.CRITICAL)

TEXT = ("CREATE TABLE Y (k INTEGER);\nCREATE TABLE X (a INTEGER, b INTEGER);\n" +
        "".join("CREATE ROP REF_ID R%d FROM MC X (b) TO 1 Y (k);\n" % i for i in range(1, 601)) +
        "INSERT INTO X VALUES (1);\n")

def main():
    print(DOC)
    loader = xtuml.ModelLoader()
    try:
        loader.input(TEXT)
    except xtuml.ParsingException as e:
        print('the text was rejected with the parsing exception (%s); nothing to check' % e)
        return 0
    print('input(): accepted, %d statements' % len(loader.statements))
    print('expected: build_metamodel() succeeds or raises xtuml.ParsingException / xtuml.MetaException')
    try:
        loader.build_metamodel()
    except (xtuml.ParsingException, xtuml.MetaException) as e:
        print('happened: %s: %s -- allowed by the property' % (type(e).__name__, e))
        return 0
    except Exception as e:
        print('happened: %s: %s -- an unrelated built-in error, PROPERTY VIOLATED' % (type(e).__name__, e))
        return 1
    print('happened: build succeeded')
    return 0

sys.exit(main())
