import sys; sys.path.insert(0, '<worktree>')
DOC = '''
defect 2: a CREATE ROP with more FROM-keys than TO-keys leaves the surplus key
without default value and without property; a positional INSERT that stops
before that column makes build_metamodel() fail with AttributeError.
'''
import logging
import xtuml
assert xtuml.__file__.startswith('<worktree>'), xtuml.__file__
logging.disable(logging.CRITICAL)

TEXT = """CREATE TABLE X (a INTEGER, b INTEGER);
CREATE ROP REF_ID R1 FROM 1C X (a, b) PHRASE 'next' TO 1C X (b) PHRASE 'prev';
INSERT INTO X VALUES (1);
"""

def main():
    print(DOC)
    loader = xtuml.ModelLoader()
    try:
        loader.input(TEXT)
    except xtuml.ParsingException as e:
        print('the text was rejected with the parsing exception (%s); nothing to check' % e)
        return 0
    print('input(): accepted, %d statements' % len(loader.statements))
    print('expected: build_metamodel() succeeds or raises xtuml.ParsingException / xtuml.MetaException')
    try:
        loader.build_metamodel()
    except (xtuml.ParsingException, xtuml.MetaException) as e:
        print('happened: %s: %s -- allowed by the property' % (type(e).__name__, e))
        return 0
    except Exception as e:
        print('happened: %s: %s -- an unrelated built-in error, PROPERTY VIOLATED' % (type(e).__name__, e))
        return 1
    print('happened: build succeeded')
    return 0

sys.exit(main())
