import sys; sys.path.insert(0, '<worktree>')
DOC = '''
defect 5 (entry point: bridgepoint.ooaofooa.ModelLoader.filename_input): a text
file that is legal for the SQL loader but whose last 22 characters (inside a
trailing comment) look like a zip end-of-central-directory record is sniffed as
a zip archive: depending on the filler it raises zipfile.BadZipFile, or it is
"accepted" while every statement in it is silently dropped.
'''
import logging, os, tempfile, zipfile
import xtuml, bridgepoint
assert xtuml.__file__.startswith('<worktree>'), xtuml.__file__
assert bridgepoint.__file__.startswith('<worktree>'), bridgepoint.__file__
logging.disable(logging.CRITICAL)

STMT = "INSERT INTO S_SYS VALUES (\"00000000-0000-0000-0000-000000000001\", 'sys', 1);\n"

def main():
    print(DOC)
    rc = 0
    for label, tail in (('filler aaaa', "-- PK\x05\x06" + "a" * 16 + "\x00\x00"),
                        ('filler NUL ', "-- PK\x05\x06" + "\x00" * 18)):
        text = STMT + tail
        ref = xtuml.ModelLoader()
        ref.input(text)          # plain string input: accepted, 1 statement
        print('%s: input() of the same text on a plain xtuml.ModelLoader: accepted, %d statement' % (label, len(ref.statements)))
        fd, path = tempfile.mkstemp(suffix='.xtuml', dir='<worktree>/_out')
        try:
            with os.fdopen(fd, 'w') as f:
                f.write(text)
            loader = bridgepoint.ooaofooa.ModelLoader(load_globals=False)
            before = len(loader.statements)
            print('%s: expected: filename_input() accepts the text (1 new statement) or raises xtuml.ParsingException' % label)
            try:
                loader.filename_input(path)
            except xtuml.ParsingException as e:
                print('%s: happened: ParsingException %s -- allowed' % (label, e))
                continue
            except Exception as e:
                print('%s: happened: %s: %s -- not the parsing exception, PROPERTY VIOLATED' % (label, type(e).__name__, e))
                rc = 1
                continue
            new = len(loader.statements) - before
            if new != 1:
                print('%s: happened: accepted, but %d new statements (text silently dropped), PROPERTY VIOLATED' % (label, new))
                rc = 1
            else:
                print('%s: happened: accepted, 1 new statement' % label)
        finally:
            os.unlink(path)
    return rc

sys.exit(main())
