import sys; sys.path.insert(0, '<worktree>')
DOC = '''
defect 3: two columns whose names differ only in case (or not at all) but have
different types; the second one is a key of an association and holds 0.
build_metamodel() fails with TypeError (len() of an int).
'''
import logging
import xtuml
assert xtuml.__file__.startswith('<worktree>'), xtuml.__file__
logging.disable(logging.CRITICAL)

TEXT = """CREATE TABLE Y (k INTEGER);
CREATE TABLE X (Name STRING, NAME INTEGER);
CREATE ROP REF_ID R1 FROM MC X (NAME) TO 1 Y (k);
INSERT INTO Y VALUES (0);
INSERT INTO X VALUES ('x', 0);
"""

def main():
    print(DOC)
    loader = xtuml.ModelLoader()
    try:
        loader.input(TEXT)
    except xtuml.ParsingException as e:
        print('the text was rejected with the parsing exception (%s); nothing to check' % e)
        return 0
    print('input(): accepted, %d statements' % len(loader.statements))
    print('expected: build_metamodel() succeeds or raises xtuml.ParsingException / xtuml.MetaException')
    try:
        loader.build_metamodel()
    except (xtuml.ParsingException, xtuml.MetaException) as e:
        print('happened: %s: %s -- allowed by the property' % (type(e).__name__, e))
        return 0
    except Exception as e:
        print('happened: %s: %s -- an unrelated built-in error, PROPERTY VIOLATED' % (type(e).__name__, e))
        return 1
    print('happened: build succeeded')
    return 0

sys.exit(main())
