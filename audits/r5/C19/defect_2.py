import sys; sys.path.insert(0, '<worktree>')
# Keyword arguments named like the python parameters of the constructors
# ('kind' for MetaModel.new, 'self' for MetaClass.new/__call__) can not be
# applied; a TypeError escapes instead.
import xtuml
assert xtuml.__file__.startswith('<worktree>')

m = xtuml.MetaModel(xtuml.IntegerGenerator())
mc = m.define_class('Pet', [('Id', 'unique_id'), ('kind', 'string'), ('self', 'integer')])
bad = False

print("expected: m.new('Pet', kind='cat').kind == 'cat'")
try:
    inst = m.new('Pet', kind='cat')
    print('actual  :', repr(inst.kind))
    bad |= inst.kind != 'cat'
except TypeError as e:
    print('actual  : TypeError:', e)
    bad = True

print("expected: metaclass.new(self=7).self == 7")
try:
    inst = mc.new(self=7)
    print('actual  :', repr(getattr(inst, 'self')))
    bad |= getattr(inst, 'self') != 7
except TypeError as e:
    print('actual  : TypeError:', e)
    bad = True

# control: the same attributes work when spelled in another case
inst = m.new('Pet', Kind='cat', SELF=7)
assert inst.kind == 'cat' and getattr(inst, 'self') == 7
sys.exit(1 if bad else 0)
