# -*- coding: utf-8 -*-
import sys; sys.path.insert(0, '<worktree>')
# Type names are compared after str.upper(), which uses full unicode case
# mapping: names that are not one of the five known types are accepted.
import xtuml
assert xtuml.__file__.startswith('<worktree>')

bad = False
for ty in (u'ınteger',        # dotless i + 'nteger'
           u'ﬆring',          # ligature 'st' + 'ring'
           u'unıque_ıd'):
    m = xtuml.MetaModel(xtuml.IntegerGenerator())
    m.define_class('A', [('x', ty)])
    print('type %r (lower() = %r)' % (ty, ty.lower()))
    print('  expected: MetaException, unknown type')
    try:
        inst = m.new('A')
        print('  actual  : accepted, x = %r' % inst.x)
        bad = True
    except xtuml.MetaException as e:
        print('  actual  : MetaException', e)
sys.exit(1 if bad else 0)
