import sys; sys.path.insert(0, '<worktree>')
# An attribute of unknown type is NOT rejected when the attribute is
# referential: new() never looks at its type.
import xtuml
assert xtuml.__file__.startswith('<worktree>')

m = xtuml.MetaModel(xtuml.IntegerGenerator())
m.define_class('A', [('Id', 'unique_id')])
m.define_class('B', [('Id', 'unique_id'), ('A_Id', 'colour')])

# control: before the association is formalised the unknown type is rejected
try:
    m.find_metaclass('B').default_value('colour')
    raise SystemExit('control failed')
except xtuml.MetaException:
    pass

ass = m.define_association('R1', 'B', ['A_Id'], True, True, '',
                           'A', ['Id'], False, False, '')
ass.formalize()

print("expected: m.new('B') raises MetaException (attribute A_Id has unknown type 'colour')")
try:
    inst = m.new('B')
except xtuml.MetaException as e:
    print('actual  : MetaException:', e)
    sys.exit(0)
print('actual  : instance created,', inst.__dict__)
sys.exit(1)
