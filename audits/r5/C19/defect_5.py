import sys; sys.path.insert(0, '<worktree>')
# bridgepoint: a component built with derived_attributes=True lists the derived
# attribute in the schema AND installs a read-only property of the same name
# on the class, so new() can not give it a default and no instance of such a
# class can be created at all (AttributeError, leftover instance in storage).
import logging
logging.disable(logging.CRITICAL)
import xtuml
assert xtuml.__file__.startswith('<worktree>')
sys.path.insert(0, '<worktree>/tests')
from test_bridgepoint.test_interpret import model   # BridgePoint model text with a derived attribute
from bridgepoint import ooaofooa

l = ooaofooa.Loader(load_globals=True)
l.input(model, 'Test model')
c = l.build_component(derived_attributes=True)
mc = c.find_metaclass('CLASS')
print('schema of CLASS:', mc.attributes)
print("expected: new('CLASS') returns an instance with ID fresh, Derived_Attribute defaulted (0)")
try:
    inst = c.new('CLASS')
except xtuml.MetaException as e:
    print('actual  : MetaException', e)
    sys.exit(1)
except Exception as e:
    print('actual  : %s: %s' % (type(e).__name__, e))
    print('          leftover instances in storage:', len(mc.storage))
    sys.exit(1)
print('actual  :', inst.__dict__)
sys.exit(0)
