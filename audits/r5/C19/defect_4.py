import sys; sys.path.insert(0, '<worktree>')
# A user-supplied generator whose sequence contains 0 hands out the null id
# as a defaulted unique id; default_value() does not skip it.
import itertools
import xtuml
from xtuml.meta import _is_null
assert xtuml.__file__.startswith('<worktree>')

class Counter(xtuml.IdGenerator):
    '''counts 0, 1, 2, ...'''
    def __init__(self):
        self._n = itertools.count()
        xtuml.IdGenerator.__init__(self)
    def readfunc(self):
        return next(self._n)

bad = False
for gen in (Counter(), itertools.count()):
    m = xtuml.MetaModel(gen)
    m.define_class('A', [('Id', 'unique_id')])
    inst = m.new('A')
    print('generator %s' % type(gen).__name__)
    print('  expected: defaulted Id is not the null id')
    print('  actual  : Id = %r, _is_null -> %s' % (inst.Id, _is_null(inst, 'Id')))
    bad |= _is_null(inst, 'Id')
sys.exit(1 if bad else 0)
