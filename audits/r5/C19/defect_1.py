import sys; sys.path.insert(0, '<worktree>')
# Rejected creation (unknown attribute type) still leaves a half-initialised
# instance in the metamodel: attributes after the unknown-typed one have no
# default at all.
import xtuml
assert xtuml.__file__.startswith('<worktree>')

m = xtuml.MetaModel(xtuml.IntegerGenerator())
m.define_class('A', [('Id', 'unique_id'), ('x', 'integer'),
                     ('y', 'colour'), ('z', 'string')])
try:
    m.new('A')
    print('no exception at all')
    sys.exit(1)
except xtuml.MetaException as e:
    print('rejected as promised:', e)

insts = list(m.select_many('A'))
print('expected: the rejected creation leaves no instance behind (0 instances of A)')
print('actual  : %d instance(s) of A in the metamodel' % len(insts))
bad = False
for inst in insts:
    bad = True
    print('  leftover instance __dict__ =', inst.__dict__)
    for name, ty in m.find_metaclass('A').attributes:
        try:
            getattr(inst, name)
        except AttributeError as e:
            print('  attribute %s (%s) has no default: %s' % (name, ty, e))
    try:
        str(inst)
    except Exception as e:
        print('  str(inst) raises', type(e).__name__)
sys.exit(1 if bad else 0)
