import sys; sys.path.insert(0, '<worktree>')
import logging, os, tempfile
import xtuml
from bridgepoint import ooaofooa
assert xtuml.__file__.startswith('<worktree>')
logging.disable(logging.CRITICAL)

# One class with key letters R2D2 and an attribute R1_count (both legal identifiers).

MODEL = """\
INSERT INTO EP_PKG (Package_ID, Name) VALUES ("00000000-0000-0000-0000-000000001001", 'Top');
INSERT INTO PE_PE (Element_ID, Visibility, Package_ID, Component_ID, type) VALUES ("00000000-0000-0000-0000-000000001001", 1, "00000000-0000-0000-0000-000000000000", "00000000-0000-0000-0000-000000000000", 7);
INSERT INTO C_C (Id, Name) VALUES ("00000000-0000-0000-0000-000000001002", 'Comp');
INSERT INTO PE_PE (Element_ID, Visibility, Package_ID, Component_ID, type) VALUES ("00000000-0000-0000-0000-000000001002", 1, "00000000-0000-0000-0000-000000001001", "00000000-0000-0000-0000-000000000000", 2);
INSERT INTO EP_PKG (Package_ID, Name) VALUES ("00000000-0000-0000-0000-000000001003", 'Classes');
INSERT INTO PE_PE (Element_ID, Visibility, Package_ID, Component_ID, type) VALUES ("00000000-0000-0000-0000-000000001003", 1, "00000000-0000-0000-0000-000000000000", "00000000-0000-0000-0000-000000001002", 7);
INSERT INTO O_OBJ (Obj_ID, Name, Numb, Key_Lett, Descrip) VALUES ("00000000-0000-0000-0000-000000001004", 'R2D2', 1, 'R2D2', '');
INSERT INTO PE_PE (Element_ID, Visibility, Package_ID, Component_ID, type) VALUES ("00000000-0000-0000-0000-000000001004", 1, "00000000-0000-0000-0000-000000001003", "00000000-0000-0000-0000-000000000000", 4);
INSERT INTO O_ATTR (Attr_ID, Obj_ID, PAttr_ID, Name, Prefix, Root_Nam, Pfx_Mode, DT_ID) VALUES ("00000000-0000-0000-0000-000000001005", "00000000-0000-0000-0000-000000001004", "00000000-0000-0000-0000-000000000000", 'Id', '', 'Id', 0, "ba5eda7a-def5-0000-0000-000000000005");
INSERT INTO O_BATTR (Attr_ID, Obj_ID) VALUES ("00000000-0000-0000-0000-000000001005", "00000000-0000-0000-0000-000000001004");
INSERT INTO O_NBATTR (Attr_ID, Obj_ID) VALUES ("00000000-0000-0000-0000-000000001005", "00000000-0000-0000-0000-000000001004");
INSERT INTO O_ATTR (Attr_ID, Obj_ID, PAttr_ID, Name, Prefix, Root_Nam, Pfx_Mode, DT_ID) VALUES ("00000000-0000-0000-0000-000000001006", "00000000-0000-0000-0000-000000001004", "00000000-0000-0000-0000-000000001005", 'R1_count', '', 'R1_count', 0, "ba5eda7a-def5-0000-0000-000000000002");
INSERT INTO O_BATTR (Attr_ID, Obj_ID) VALUES ("00000000-0000-0000-0000-000000001006", "00000000-0000-0000-0000-000000001004");
INSERT INTO O_NBATTR (Attr_ID, Obj_ID) VALUES ("00000000-0000-0000-0000-000000001006", "00000000-0000-0000-0000-000000001004");
INSERT INTO O_ID (Oid_ID, Obj_ID) VALUES (0, "00000000-0000-0000-0000-000000001004");
INSERT INTO O_OIDA (Attr_ID, Obj_ID, Oid_ID, localAttributeName) VALUES ("00000000-0000-0000-0000-000000001005", "00000000-0000-0000-0000-000000001004", 0, 'Id');
INSERT INTO O_ID (Oid_ID, Obj_ID) VALUES (1, "00000000-0000-0000-0000-000000001004");
INSERT INTO O_ID (Oid_ID, Obj_ID) VALUES (2, "00000000-0000-0000-0000-000000001004");
"""


def describe(m):
    out = []
    for k in sorted(m.metaclasses):
        mc = m.metaclasses[k]
        out.append(('class', mc.kind, tuple(mc.attributes), tuple(sorted(mc.indices.items()))))
    for a in m.associations:
        out.append(('assoc', a.rel_id,
                    a.source_link.kind, tuple(a.source_keys), a.source_link.cardinality, a.source_link.phrase,
                    a.target_link.kind, tuple(a.target_keys), a.target_link.cardinality, a.target_link.phrase))
    return sorted(out)


def sql_roundtrip(m):
    '''what gen_sql_schema does (xtuml.persist_database), then load the file back'''
    fn = tempfile.mktemp(suffix='.sql')
    xtuml.persist_database(m, fn)
    try:
        l = xtuml.ModelLoader()
        l.filename_input(fn)
        return l.build_metamodel()
    finally:
        os.unlink(fn)


def loader():
    l = ooaofooa.ModelLoader()
    l.input(MODEL, 'model')
    return l


m = loader().build_component('Comp')
expected = describe(m)
print('component      :', expected)
bad = 0
for label, mm in (('whole class', m),):
    try:
        got = describe(sql_roundtrip(mm))
    except Exception as e:
        print('loading the written SQL schema failed: %r' % e)
        bad = 1
    else:
        print('loaded back    :', got)
        bad = got != expected

# the attribute alone is enough
m2 = xtuml.MetaModel()
m2.define_class('Droid', [('Id', 'UNIQUE_ID'), ('R1_count', 'INTEGER')])
try:
    sql_roundtrip(m2)
except Exception as e:
    print('attribute R1_count alone: loading failed: %r' % e)
    bad = 1
if bad:
    print('VIOLATION: the SQL schema written for the component does not load back '
          '(names starting with R<digits> are lexed as a RELID token)')
    sys.exit(1)
