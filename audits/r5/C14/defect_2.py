import sys; sys.path.insert(0, '<worktree>')
import logging, os, tempfile
import xtuml
from bridgepoint import ooaofooa
assert xtuml.__file__.startswith('<worktree>')
logging.disable(logging.CRITICAL)

# One class Emp with a reflexive association R1 whose phrases are "is boss of" and
# "is employee's boss" (a phrase is free text; the apostrophe is stored as '' in the model file).

MODEL = """\
INSERT INTO EP_PKG (Package_ID, Name) VALUES ("00000000-0000-0000-0000-000000001001", 'Top');
INSERT INTO PE_PE (Element_ID, Visibility, Package_ID, Component_ID, type) VALUES ("00000000-0000-0000-0000-000000001001", 1, "00000000-0000-0000-0000-000000000000", "00000000-0000-0000-0000-000000000000", 7);
INSERT INTO C_C (Id, Name) VALUES ("00000000-0000-0000-0000-000000001002", 'Comp');
INSERT INTO PE_PE (Element_ID, Visibility, Package_ID, Component_ID, type) VALUES ("00000000-0000-0000-0000-000000001002", 1, "00000000-0000-0000-0000-000000001001", "00000000-0000-0000-0000-000000000000", 2);
INSERT INTO EP_PKG (Package_ID, Name) VALUES ("00000000-0000-0000-0000-000000001003", 'Classes');
INSERT INTO PE_PE (Element_ID, Visibility, Package_ID, Component_ID, type) VALUES ("00000000-0000-0000-0000-000000001003", 1, "00000000-0000-0000-0000-000000000000", "00000000-0000-0000-0000-000000001002", 7);
INSERT INTO O_OBJ (Obj_ID, Name, Numb, Key_Lett, Descrip) VALUES ("00000000-0000-0000-0000-000000001004", 'Emp', 1, 'Emp', '');
INSERT INTO PE_PE (Element_ID, Visibility, Package_ID, Component_ID, type) VALUES ("00000000-0000-0000-0000-000000001004", 1, "00000000-0000-0000-0000-000000001003", "00000000-0000-0000-0000-000000000000", 4);
INSERT INTO O_ATTR (Attr_ID, Obj_ID, PAttr_ID, Name, Prefix, Root_Nam, Pfx_Mode, DT_ID) VALUES ("00000000-0000-0000-0000-000000001005", "00000000-0000-0000-0000-000000001004", "00000000-0000-0000-0000-000000000000", 'Id', '', 'Id', 0, "ba5eda7a-def5-0000-0000-000000000005");
INSERT INTO O_BATTR (Attr_ID, Obj_ID) VALUES ("00000000-0000-0000-0000-000000001005", "00000000-0000-0000-0000-000000001004");
INSERT INTO O_NBATTR (Attr_ID, Obj_ID) VALUES ("00000000-0000-0000-0000-000000001005", "00000000-0000-0000-0000-000000001004");
INSERT INTO O_ATTR (Attr_ID, Obj_ID, PAttr_ID, Name, Prefix, Root_Nam, Pfx_Mode, DT_ID) VALUES ("00000000-0000-0000-0000-000000001006", "00000000-0000-0000-0000-000000001004", "00000000-0000-0000-0000-000000001005", 'Boss_Id', '', '', 0, "ba5eda7a-def5-0000-0000-000000000007");
INSERT INTO O_RATTR (Attr_ID, Obj_ID, BAttr_ID, BObj_ID, Ref_Mode) VALUES ("00000000-0000-0000-0000-000000001006", "00000000-0000-0000-0000-000000001004", "00000000-0000-0000-0000-000000001005", "00000000-0000-0000-0000-000000001004", 1);
INSERT INTO O_ID (Oid_ID, Obj_ID) VALUES (0, "00000000-0000-0000-0000-000000001004");
INSERT INTO O_OIDA (Attr_ID, Obj_ID, Oid_ID, localAttributeName) VALUES ("00000000-0000-0000-0000-000000001005", "00000000-0000-0000-0000-000000001004", 0, 'Id');
INSERT INTO O_ID (Oid_ID, Obj_ID) VALUES (1, "00000000-0000-0000-0000-000000001004");
INSERT INTO O_ID (Oid_ID, Obj_ID) VALUES (2, "00000000-0000-0000-0000-000000001004");
INSERT INTO R_REL (Rel_ID, Numb, Descrip) VALUES ("00000000-0000-0000-0000-000000001007", 1, '');
INSERT INTO PE_PE (Element_ID, Visibility, Package_ID, Component_ID, type) VALUES ("00000000-0000-0000-0000-000000001007", 1, "00000000-0000-0000-0000-000000001003", "00000000-0000-0000-0000-000000000000", 9);
INSERT INTO R_SIMP (Rel_ID) VALUES ("00000000-0000-0000-0000-000000001007");
INSERT INTO R_OIR (Obj_ID, Rel_ID, OIR_ID, IObj_ID) VALUES ("00000000-0000-0000-0000-000000001004", "00000000-0000-0000-0000-000000001007", "00000000-0000-0000-0000-000000001008", "00000000-0000-0000-0000-000000000000");
INSERT INTO R_PART (Obj_ID, Rel_ID, OIR_ID, Mult, Cond, Txt_Phrs) VALUES ("00000000-0000-0000-0000-000000001004", "00000000-0000-0000-0000-000000001007", "00000000-0000-0000-0000-000000001008", 0, 1, 'is employee''s boss');
INSERT INTO R_RTO (Obj_ID, Rel_ID, OIR_ID, Oid_ID) VALUES ("00000000-0000-0000-0000-000000001004", "00000000-0000-0000-0000-000000001007", "00000000-0000-0000-0000-000000001008", 0);
INSERT INTO R_OIR (Obj_ID, Rel_ID, OIR_ID, IObj_ID) VALUES ("00000000-0000-0000-0000-000000001004", "00000000-0000-0000-0000-000000001007", "00000000-0000-0000-0000-000000001009", "00000000-0000-0000-0000-000000000000");
INSERT INTO R_FORM (Obj_ID, Rel_ID, OIR_ID, Mult, Cond, Txt_Phrs) VALUES ("00000000-0000-0000-0000-000000001004", "00000000-0000-0000-0000-000000001007", "00000000-0000-0000-0000-000000001009", 1, 1, 'is boss of');
INSERT INTO R_RGO (Obj_ID, Rel_ID, OIR_ID) VALUES ("00000000-0000-0000-0000-000000001004", "00000000-0000-0000-0000-000000001007", "00000000-0000-0000-0000-000000001009");
INSERT INTO O_RTIDA (Attr_ID, Obj_ID, Oid_ID, Rel_ID, OIR_ID) VALUES ("00000000-0000-0000-0000-000000001005", "00000000-0000-0000-0000-000000001004", 0, "00000000-0000-0000-0000-000000001007", "00000000-0000-0000-0000-000000001008");
INSERT INTO O_REF (Obj_ID, RObj_ID, ROid_ID, RAttr_ID, Rel_ID, OIR_ID, ROIR_ID, Attr_ID, ARef_ID, PARef_ID, Is_Cstrd) VALUES ("00000000-0000-0000-0000-000000001004", "00000000-0000-0000-0000-000000001004", 0, "00000000-0000-0000-0000-000000001005", "00000000-0000-0000-0000-000000001007", "00000000-0000-0000-0000-000000001009", "00000000-0000-0000-0000-000000001008", "00000000-0000-0000-0000-000000001006", "00000000-0000-0000-0000-00000000100a", "00000000-0000-0000-0000-000000000000", 0);
"""


def describe(m):
    out = []
    for k in sorted(m.metaclasses):
        mc = m.metaclasses[k]
        out.append(('class', mc.kind, tuple(mc.attributes), tuple(sorted(mc.indices.items()))))
    for a in m.associations:
        out.append(('assoc', a.rel_id,
                    a.source_link.kind, tuple(a.source_keys), a.source_link.cardinality, a.source_link.phrase,
                    a.target_link.kind, tuple(a.target_keys), a.target_link.cardinality, a.target_link.phrase))
    return sorted(out)


def sql_roundtrip(m):
    '''what gen_sql_schema does (xtuml.persist_database), then load the file back'''
    fn = tempfile.mktemp(suffix='.sql')
    xtuml.persist_database(m, fn)
    try:
        l = xtuml.ModelLoader()
        l.filename_input(fn)
        return l.build_metamodel()
    finally:
        os.unlink(fn)


def loader():
    l = ooaofooa.ModelLoader()
    l.input(MODEL, 'model')
    return l


m = loader().build_component('Comp')
expected = describe(m)
print('component      :', [d for d in expected if d[0] == 'assoc'])
print('written as     :', xtuml.serialize_association(m.associations[0]).strip())
try:
    got = describe(sql_roundtrip(m))
except Exception as e:
    print('loading the written SQL schema failed: %r' % e)
    print('VIOLATION: the SQL schema written for the component does not load back')
    sys.exit(1)
print('loaded back    :', [d for d in got if d[0] == 'assoc'])
if got != expected:
    print('VIOLATION: the SQL schema loads back to different definitions')
    sys.exit(1)
