import sys; sys.path.insert(0, '<worktree>')
import logging, os, tempfile
import xtuml
from bridgepoint import ooaofooa
assert xtuml.__file__.startswith('<worktree>')
logging.disable(logging.CRITICAL)

# Two components, Comp (class A) and Other (class Z).
# bridgepoint.load_component(resource, name) is the public one-call entry point for "build the
# component called name"; it must give the same result as ModelLoader.build_component(name).

MODEL = """\
INSERT INTO EP_PKG (Package_ID, Name) VALUES ("00000000-0000-0000-0000-000000001001", 'Top');
INSERT INTO PE_PE (Element_ID, Visibility, Package_ID, Component_ID, type) VALUES ("00000000-0000-0000-0000-000000001001", 1, "00000000-0000-0000-0000-000000000000", "00000000-0000-0000-0000-000000000000", 7);
INSERT INTO C_C (Id, Name) VALUES ("00000000-0000-0000-0000-000000001002", 'Comp');
INSERT INTO PE_PE (Element_ID, Visibility, Package_ID, Component_ID, type) VALUES ("00000000-0000-0000-0000-000000001002", 1, "00000000-0000-0000-0000-000000001001", "00000000-0000-0000-0000-000000000000", 2);
INSERT INTO EP_PKG (Package_ID, Name) VALUES ("00000000-0000-0000-0000-000000001003", 'Classes');
INSERT INTO PE_PE (Element_ID, Visibility, Package_ID, Component_ID, type) VALUES ("00000000-0000-0000-0000-000000001003", 1, "00000000-0000-0000-0000-000000000000", "00000000-0000-0000-0000-000000001002", 7);
INSERT INTO O_OBJ (Obj_ID, Name, Numb, Key_Lett, Descrip) VALUES ("00000000-0000-0000-0000-000000001004", 'A', 1, 'A', '');
INSERT INTO PE_PE (Element_ID, Visibility, Package_ID, Component_ID, type) VALUES ("00000000-0000-0000-0000-000000001004", 1, "00000000-0000-0000-0000-000000001003", "00000000-0000-0000-0000-000000000000", 4);
INSERT INTO O_ATTR (Attr_ID, Obj_ID, PAttr_ID, Name, Prefix, Root_Nam, Pfx_Mode, DT_ID) VALUES ("00000000-0000-0000-0000-000000001005", "00000000-0000-0000-0000-000000001004", "00000000-0000-0000-0000-000000000000", 'Id', '', 'Id', 0, "ba5eda7a-def5-0000-0000-000000000005");
INSERT INTO O_BATTR (Attr_ID, Obj_ID) VALUES ("00000000-0000-0000-0000-000000001005", "00000000-0000-0000-0000-000000001004");
INSERT INTO O_NBATTR (Attr_ID, Obj_ID) VALUES ("00000000-0000-0000-0000-000000001005", "00000000-0000-0000-0000-000000001004");
INSERT INTO O_ID (Oid_ID, Obj_ID) VALUES (0, "00000000-0000-0000-0000-000000001004");
INSERT INTO O_OIDA (Attr_ID, Obj_ID, Oid_ID, localAttributeName) VALUES ("00000000-0000-0000-0000-000000001005", "00000000-0000-0000-0000-000000001004", 0, 'Id');
INSERT INTO O_ID (Oid_ID, Obj_ID) VALUES (1, "00000000-0000-0000-0000-000000001004");
INSERT INTO O_ID (Oid_ID, Obj_ID) VALUES (2, "00000000-0000-0000-0000-000000001004");
INSERT INTO C_C (Id, Name) VALUES ("00000000-0000-0000-0000-000000001006", 'Other');
INSERT INTO PE_PE (Element_ID, Visibility, Package_ID, Component_ID, type) VALUES ("00000000-0000-0000-0000-000000001006", 1, "00000000-0000-0000-0000-000000001001", "00000000-0000-0000-0000-000000000000", 2);
INSERT INTO EP_PKG (Package_ID, Name) VALUES ("00000000-0000-0000-0000-000000001007", 'Classes2');
INSERT INTO PE_PE (Element_ID, Visibility, Package_ID, Component_ID, type) VALUES ("00000000-0000-0000-0000-000000001007", 1, "00000000-0000-0000-0000-000000000000", "00000000-0000-0000-0000-000000001006", 7);
INSERT INTO O_OBJ (Obj_ID, Name, Numb, Key_Lett, Descrip) VALUES ("00000000-0000-0000-0000-000000001008", 'Z', 1, 'Z', '');
INSERT INTO PE_PE (Element_ID, Visibility, Package_ID, Component_ID, type) VALUES ("00000000-0000-0000-0000-000000001008", 1, "00000000-0000-0000-0000-000000001007", "00000000-0000-0000-0000-000000000000", 4);
INSERT INTO O_ATTR (Attr_ID, Obj_ID, PAttr_ID, Name, Prefix, Root_Nam, Pfx_Mode, DT_ID) VALUES ("00000000-0000-0000-0000-000000001009", "00000000-0000-0000-0000-000000001008", "00000000-0000-0000-0000-000000000000", 'Id', '', 'Id', 0, "ba5eda7a-def5-0000-0000-000000000005");
INSERT INTO O_BATTR (Attr_ID, Obj_ID) VALUES ("00000000-0000-0000-0000-000000001009", "00000000-0000-0000-0000-000000001008");
INSERT INTO O_NBATTR (Attr_ID, Obj_ID) VALUES ("00000000-0000-0000-0000-000000001009", "00000000-0000-0000-0000-000000001008");
INSERT INTO O_ID (Oid_ID, Obj_ID) VALUES (0, "00000000-0000-0000-0000-000000001008");
INSERT INTO O_OIDA (Attr_ID, Obj_ID, Oid_ID, localAttributeName) VALUES ("00000000-0000-0000-0000-000000001009", "00000000-0000-0000-0000-000000001008", 0, 'Id');
INSERT INTO O_ID (Oid_ID, Obj_ID) VALUES (1, "00000000-0000-0000-0000-000000001008");
INSERT INTO O_ID (Oid_ID, Obj_ID) VALUES (2, "00000000-0000-0000-0000-000000001008");
"""


def describe(m):
    out = []
    for k in sorted(m.metaclasses):
        mc = m.metaclasses[k]
        out.append(('class', mc.kind, tuple(mc.attributes), tuple(sorted(mc.indices.items()))))
    for a in m.associations:
        out.append(('assoc', a.rel_id,
                    a.source_link.kind, tuple(a.source_keys), a.source_link.cardinality, a.source_link.phrase,
                    a.target_link.kind, tuple(a.target_keys), a.target_link.cardinality, a.target_link.phrase))
    return sorted(out)


def sql_roundtrip(m):
    '''what gen_sql_schema does (xtuml.persist_database), then load the file back'''
    fn = tempfile.mktemp(suffix='.sql')
    xtuml.persist_database(m, fn)
    try:
        l = xtuml.ModelLoader()
        l.filename_input(fn)
        return l.build_metamodel()
    finally:
        os.unlink(fn)


def loader():
    l = ooaofooa.ModelLoader()
    l.input(MODEL, 'model')
    return l


fn = tempfile.mktemp(suffix='.xtuml')
open(fn, 'w').write(MODEL)
try:
    import bridgepoint
    got = sorted(bridgepoint.load_component(fn, 'Comp').metaclasses)
    l = ooaofooa.ModelLoader()
    l.filename_input(fn)
    expected = sorted(l.build_component('Comp').metaclasses)
finally:
    os.unlink(fn)

print('expected classes when restricted to component Comp:', expected)
print("load_component(resource, 'Comp') defined          :", got)
if got != expected:
    print('VIOLATION: load_component ignores the component name and builds the whole model')
    sys.exit(1)
