'''Properties decided by more than one engine.'''
from sim.engine import MultiEngine
from engines import store, delivery

C11 = MultiEngine('c11', ('C11',), [store.ENGINE, delivery.LOAD11])
ENGINES = [C11]
