'''
Engine `modelorder` -- the *row-order clauses* of C14, C15 and C20, and nothing
else of those properties (their main statements are pure mappings and are not
decided by this technique; see DESIGN.md §2 and §12.7).

What is decided: what pyxtuml extracts from BridgePoint model files -- the
component schema (C14), enumerator positions and constant values (C15), the
XSD schema (C20) -- does not depend on the order of the rows in the files nor
on how the rows are split over input calls, files, directory trees and zip
archives.  The order of rows in a file and the listing order of a directory
belong to the environment (fault kind F3), exactly as in C03.

Workload: real BridgePoint models (corpus/models: the repository's Simple_Model
and the model embedded in its interpreter test), optionally extended with
seeded enumerations whose enumerator rows are written in a scrambled order.
Each run delivers the same rows 2-3 times under different seeded plans
(permutation x partition x route) through the public bridgepoint.ModelLoader on
the simulated disk and compares every extraction with the extraction from the
natural single-input order (model-free twin oracle); for C15 enumerator
positions are also compared with the modelled succession order (R56) computed
independently from the rows.
'''
import glob
import os
import random
import uuid

from sim.engine import Engine, Log, Violation, stable_hash
from sim.meter import SimStall, WallGuard
from sim.rng import Streams
from sim import seams
from engines import sqlgen
from engines.delivery import Delivery, make_plan, chunked

VERIF = os.path.dirname(os.path.dirname(os.path.abspath(__file__)))
NULL = '"00000000-0000-0000-0000-000000000000"'


def load_models():
    out = []
    for path in sorted(glob.glob(os.path.join(VERIF, 'corpus', 'models', '*.xtuml'))):
        with open(path, encoding='utf-8') as f:
            out.append((os.path.basename(path), f.read()))
    return out


def values_of(stmt):
    '''(table, [value texts]) of a positional INSERT statement, by the independent tokenizer'''
    toks = [(k, stmt[a:b]) for k, a, b in sqlgen.tokenize(stmt) if k not in ('ws', 'comment')]
    words = [t for _, t in toks]
    if len(words) < 5 or words[0].upper() != 'INSERT' or words[3].upper() != 'VALUES':
        return None, []
    vals = []
    neg = False
    for k, t in toks[5:]:
        if k == 'punct':
            neg = (t == '-')
            continue
        vals.append(('-' + t) if neg else t)
        neg = False
    return words[2], vals


def enum_orders(stmts):
    '''{enumeration data type name: [enumerator names in modelled (R56) order]} from the rows alone'''
    dt_name = {}
    edt = set()
    enums = {}
    for s in stmts:
        table, v = values_of(s)
        if table == 'S_DT' and len(v) >= 3:
            dt_name[v[0]] = v[2][1:-1]
        elif table == 'S_EDT' and v:
            edt.add(v[0])
        elif table == 'S_ENUM' and len(v) >= 5:
            enums.setdefault(v[3], []).append((v[0], v[1][1:-1], v[4]))
    out = {}
    for dt, rows in enums.items():
        if dt not in edt or dt not in dt_name:
            continue
        by_prev = {prev: (eid, name) for eid, name, prev in rows}
        order = []
        cur = NULL
        seen = set()
        while cur in by_prev and cur not in seen:
            seen.add(cur)
            eid, name = by_prev[cur]
            order.append(name)
            cur = eid
        if len(order) == len(rows):
            out[dt_name[dt]] = order
    return out


def synth_enum(rng, k, package_id):
    '''rows of one extra enumeration with 3-6 enumerators, written in a scrambled order'''
    def uid():
        return '"%s"' % uuid.UUID(int=rng.getrandbits(128), version=4)
    dt = uid()
    name = 'Synth_Enum_%d' % k
    n = rng.randint(3, 6)
    ids = [uid() for _ in range(n)]
    rows = []
    for j in range(n):
        prev = ids[j - 1] if j else NULL
        rows.append("INSERT INTO S_ENUM\n\tVALUES (%s,\n\t'V%d_%d',\n\t'',\n\t%s,\n\t%s);" % (ids[j], k, j, dt, prev))
    rng.shuffle(rows)
    head = ["INSERT INTO PE_PE\n\tVALUES (%s,\n\t1,\n\t%s,\n\t%s,\n\t3);" % (dt, package_id, NULL),
            "INSERT INTO S_DT\n\tVALUES (%s,\n\t%s,\n\t'%s',\n\t'',\n\t'');" % (dt, NULL, name),
            "INSERT INTO S_EDT\n\tVALUES (%s);" % dt]
    return head + rows


CORE_IDS = ['"ba5eda7a-def5-0000-0000-00000000000%d"' % n for n in (1, 2, 3, 4, 5)]


def replace_value(stmt, index, new_text):
    '''the positional INSERT statement with its index-th value replaced (by the independent tokenizer)'''
    toks = [(k, a, b) for k, a, b in sqlgen.tokenize(stmt) if k not in ('ws', 'comment')]
    vals = [(a, b) for k, a, b in toks[5:] if k != 'punct']
    a, b = vals[index]
    return stmt[:a] + new_text + stmt[b:]


def apply_edit(texts, edit):
    '''
    One edit of the BridgePoint model, as an edit of its rows: 'retype' points a user data type at another core
    type, 'retype_attr' gives an identifying attribute another core type, 'move' puts a class into the package of
    another class.  Returns the edited rows or None.
    '''
    rows = [values_of(t) for t in texts]
    if edit['kind'] == 'retype':
        cand = [i for i, (table, v) in enumerate(rows) if table == 'S_UDT' and len(v) >= 2 and v[1] in CORE_IDS]
        if not cand:
            return None
        i = cand[edit['pick'] % len(cand)]
        others = [c for c in CORE_IDS[1:4] if c != rows[i][1][1]]
        out = list(texts)
        out[i] = replace_value(texts[i], 1, others[edit['to'] % len(others)])
        return out
    if edit['kind'] == 'retype_attr':
        # an identifying attribute (one that other classes may refer to) is given another core type
        ident = set(v[0] for table, v in rows if table == 'O_OIDA' and v)
        cand = [i for i, (table, v) in enumerate(rows) if table == 'O_ATTR' and len(v) >= 9 and v[8] in CORE_IDS
                and v[0] in ident]
        if not cand:
            return None
        i = cand[edit['pick'] % len(cand)]
        others = [c for c in CORE_IDS[1:4] if c != rows[i][1][8]]
        out = list(texts)
        out[i] = replace_value(texts[i], 8, others[edit['to'] % len(others)])
        return out
    if edit['kind'] == 'move':
        objs = set(v[0] for table, v in rows if table == 'O_OBJ' and v)
        pe = [i for i, (table, v) in enumerate(rows) if table == 'PE_PE' and len(v) >= 5 and v[0] in objs]
        if len(pe) < 2:
            return None
        i = pe[edit['pick'] % len(pe)]
        homes = sorted(set(rows[j][1][2] for j in pe) - {rows[i][1][2]})
        if not homes:
            return None
        out = list(texts)
        out[i] = replace_value(texts[i], 2, homes[edit['to'] % len(homes)])
        return out
    return None


def synth_entity(rng, k, package_id):
    '''
    rows of one extra external entity whose three to five bridges each return their own constant (drawn per run:
    equally named bridges of other entities, and of the models of earlier runs, return other constants)
    '''
    def uid():
        return '"%s"' % uuid.UUID(int=rng.getrandbits(128), version=4)
    ee = uid()
    integer = '"ba5eda7a-def5-0000-0000-000000000002"'
    rows = ["INSERT INTO S_EE\n\tVALUES (%s,\n\t'synth %d',\n\t'',\n\t'SYNEE%d',\n\t%s,\n\t'',\n\t'',\n\t0);" % (ee, k, k, NULL),
            "INSERT INTO PE_PE\n\tVALUES (%s,\n\t1,\n\t%s,\n\t%s,\n\t5);" % (ee, package_id, NULL)]
    brgs = []
    for j in range(rng.randint(3, 5)):
        brgs.append("INSERT INTO S_BRG\n\tVALUES (%s,\n\t%s,\n\t'b%d',\n\t'',\n\t0,\n\t%s,\n\t'return %d;',\n\t1,\n\t'',\n\t0);"
                    % (uid(), ee, j, integer, rng.randint(1, 999999)))
    rng.shuffle(brgs)
    return rows + brgs


class ModelOrderEngine(Engine):
    name = 'modelorder'
    props = ('C14', 'C15', 'C20')
    WALL_S = 120.0

    def setup(self, prop, tier):
        import xtuml
        import bridgepoint
        import bridgepoint.ooaofooa
        import bridgepoint.gen_xsd_schema
        self.x = xtuml
        self.bp = bridgepoint
        self.ooa = bridgepoint.ooaofooa
        self.xsd = bridgepoint.gen_xsd_schema
        seams.install_entropy()
        seams.install_clock()
        self.models = []
        for name, text in load_models():
            stmts = [s for s in sqlgen.split_statements(text) if s.strip()]
            pkg = None
            for s in stmts:
                table, v = values_of(s)
                if table == 'EP_PKG' and v:
                    pkg = v[0]
                    break
            self.models.append((name, stmts, pkg))
        if not self.models:
            raise RuntimeError('HARNESS-ERROR: empty model corpus')
        self._schema_loader = None

    def plan(self, prop, tier):
        if tier == 'quick':
            return {'runs': 900, 'chunk': 4, 'wall_cap': 240, 'determinism_runs': 4, 'hard_s': 300}
        return {'runs': 30000, 'chunk': 8, 'wall_cap': 3000, 'determinism_runs': 8, 'hard_s': 300}

    def describe(self, prop):
        what = {'C14': 'the component schema built by build_component (classes with attributes in modelled order, '
                       'identifiers, associations)',
                'C15': 'enumerator positions and constant values found through Domain.find_symbol',
                'C20': 'the XSD schema built by gen_xsd_schema.build_schema for every component'}[prop]
        return {
            'level': 'exploration',
            'rule': ('one run = one real BridgePoint model of the corpus (plus seeded extra enumerations with scrambled '
                     'enumerator rows) delivered 2-3 times under different seeded plans (permutation of the rows x '
                     'partition into chunks x route per chunk: input / file_input / filename_input / directory tree / zip '
                     'archive on the simulated disk) through the public bridgepoint.ModelLoader; compared: %s. A case is '
                     'distinct by the hash of (rows, plans) and non-trivial when at least two different orders were '
                     'delivered. distinct_nontrivial counts those.' % what),
            'components': {
                'real': ['bridgepoint.ooaofooa (ModelLoader, mk_component, mk_class, mk_association, mk_enum, mk_constant)',
                         'bridgepoint.gen_xsd_schema.build_schema', 'xtuml.load', 'xtuml.meta', 'zipfile', 'CPython io stack'],
                'stub': ['disk below io.RawIOBase (SimDisk)', 'os.walk / os.path.isdir listing order', 'uuid.uuid4', 'clock'],
                'oracle': ['twin: the same extraction from the rows in their natural order, one input',
                           'R56 succession order of enumerators computed from the rows by an independent tokenizer'],
            },
            'assumptions': [
                'ONLY the row-order / partition independence clause of the property is decided; the mapping itself '
                '(a pure function of the model) is not',
                'identifier attribute lists and association key pairs are compared as sets of pairs; the order of XSD '
                'attributes inside a class and of top-level declarations is not compared, the order of enumerators is',
            ],
        }

    # ------------------------------------------------------------------ generate
    def generate(self, prop, seed, tier, idx):
        st = Streams(seed)
        sw = st['swarm']
        mi = idx % len(self.models)
        name, stmts, pkg = self.models[mi]
        rng = st['ops']
        extra = []
        if pkg and sw.random() < 0.7:
            for k in range(sw.randint(1, 3)):
                extra.append(synth_enum(rng, k, pkg))
        if pkg and prop == 'C15' and sw.random() < 0.6:
            extra.append(synth_entity(rng, 0, pkg))
            if sw.random() < 0.5:
                # a second entity whose bridges carry the same names and return other constants
                extra.append(synth_entity(rng, 1, pkg))
        cfg = {'model': name, 'extra': extra, 'plans': [st['sched'].getrandbits(48) for _ in range(sw.choice([2, 2, 3]))],
               'derived': sw.random() < 0.5, 'real_ctor': sw.random() < 0.1, 'globals': True}
        if prop in ('C14', 'C20') and sw.random() < 0.3:
            # an edited variant of the model, extracted by this (warm) process and by a freshly imported library
            cfg['edit'] = {'kind': sw.choice(['retype', 'move', 'retype_attr']), 'pick': sw.randrange(64), 'to': sw.randrange(8)}
        ops = list(range(len(stmts)))
        return {'prop': prop, 'engine': self.name, 'seed': seed, 'cfg': cfg, 'ops': ops}

    def sample(self, case):
        return {'seed': case['seed'], 'cfg': {k: (v if k != 'extra' else len(v)) for k, v in case['cfg'].items()},
                'rows': len(case['ops'])}

    # ------------------------------------------------------------------- execute
    def new_loader(self, cfg):
        '''
        bridgepoint.ModelLoader parses the whole ooaofooa schema in its constructor (0.3 s): most runs start from
        a copy of the statements of one such loader, one run in ten goes through the real constructor.
        '''
        if cfg.get('real_ctor'):
            return self.bp.ModelLoader(load_globals=cfg.get('globals', True))
        key = bool(cfg.get('globals', True))
        if self._schema_loader is None:
            self._schema_loader = {}
        if key not in self._schema_loader:
            self._schema_loader[key] = self.bp.ModelLoader(load_globals=key)
        base = self._schema_loader[key]
        loader = self.ooa.ModelLoader.__new__(self.ooa.ModelLoader)
        self.x.ModelLoader.__init__(loader)
        loader.statements = list(base.statements)
        return loader

    def cold_extract(self, prop, texts, cfg):
        '''
        The same extraction by a freshly imported copy of the library (a restarted process as far as the library's
        module-level state goes): xtuml and bridgepoint are dropped from sys.modules, imported again from the
        scratch copy, used once, and the warm modules are put back.
        '''
        import importlib
        import sys
        saved = {k: v for k, v in sys.modules.items()
                 if k in ('xtuml', 'bridgepoint') or k.startswith(('xtuml.', 'bridgepoint.'))}
        for k in saved:
            del sys.modules[k]
        try:
            bp = importlib.import_module('bridgepoint')
            xsd = importlib.import_module('bridgepoint.gen_xsd_schema')
            loader = bp.ModelLoader(load_globals=cfg.get('globals', True))
            loader.input('\n'.join(texts) + '\n', 'edited model')
            return self.extract(prop, loader, cfg, xsd=xsd)
        finally:
            for k in [k for k in sys.modules if k in ('xtuml', 'bridgepoint') or k.startswith(('xtuml.', 'bridgepoint.'))]:
                del sys.modules[k]
            sys.modules.update(saved)

    def extract(self, prop, loader, cfg, xsd=None):
        x = self.x
        if prop == 'C20':
            m = loader.build_metamodel()
            out = []
            for c_c in m.select_many('C_C'):
                out.append((c_c.Name, canon_xml((xsd or self.xsd).build_schema(m, c_c))))
            return sorted(out)
        comp = loader.build_component(derived_attributes=cfg.get('derived', False))
        if prop == 'C14':
            classes = {}
            idents = {}
            for ukind, mc in comp.metaclasses.items():
                classes[ukind] = [(n, t) for n, t in mc.attributes]
                idents[ukind] = sorted((str(name), tuple(sorted(attrs))) for name, attrs in mc.indices.items())
            assocs = []
            for ass in comp.associations:
                if not ass.source_keys:
                    # an unformalized relationship has no referring side; which participant becomes the
                    # "source" follows row order and C14 speaks of formalized relationships only
                    continue
                assocs.append((ass.rel_id, ass.source_link.to_metaclass.kind, ass.target_link.to_metaclass.kind,
                               tuple(sorted(zip(ass.source_keys, ass.target_keys))),
                               ass.source_link.cardinality, ass.target_link.cardinality,
                               ass.source_link.phrase, ass.target_link.phrase))
            return {'classes': classes, 'identifiers': idents, 'associations': sorted(assocs)}
        symbols = {}
        for name, h in comp.symbols.items():
            if name in cfg.get('_ambiguous', ()):
                continue        # two model elements of that name: which one the symbol table keeps is not promised
            if isinstance(h, tuple) and hasattr(h, '_fields'):
                if all(isinstance(v, int) and not isinstance(v, bool) for v in h):
                    symbols[name] = ('enum', tuple((f, getattr(h, f)) for f in h._fields))
                else:
                    # an external entity: a tuple of callables, compared by the names of its bridges -- and, for the
                    # seeded entities whose bridges take no parameters, by what each bridge returns
                    if name.startswith('SYNEE'):
                        res = []
                        for f in sorted(h._fields):
                            try:
                                res.append((f, sqlgen.cv(getattr(h, f)())))
                            except Exception as e:
                                res.append((f, 'raised ' + type(e).__name__))
                        symbols[name] = ('entity', tuple(res))
                        self.bridges_called = getattr(self, 'bridges_called', 0) + len(res)
                    else:
                        symbols[name] = ('entity', tuple(sorted(h._fields)))
            elif isinstance(h, (bool, int, float, str)):
                symbols[name] = ('const', sqlgen.cv(h))
        return symbols

    def execute(self, case):
        prop = case['prop']
        cfg = case['cfg']
        log = Log()
        faults, probes = {}, {}
        states = set()
        guard = WallGuard()
        guard.arm(cfg.get('wall_s', self.WALL_S))
        violation = None
        step = -1
        try:
            name, stmts, pkg = [m for m in self.models if m[0] == cfg['model']][0]
            texts = [stmts[i] for i in case['ops'] if i < len(stmts)]
            for e in cfg.get('extra', []):
                texts += e
            names = {}
            for t in texts:
                table, v = values_of(t)
                if table in ('S_DT', 'S_SYNC', 'S_EE') and len(v) >= 3:
                    names[v[2][1:-1]] = names.get(v[2][1:-1], 0) + 1
                elif table == 'CNST_SYC' and len(v) >= 2:
                    names[v[1][1:-1]] = names.get(v[1][1:-1], 0) + 1
            cfg = dict(cfg, _ambiguous=sorted(n for n, c in names.items() if c > 1))
            # the natural order, one input: the twin
            base_loader = self.new_loader(cfg)
            base_loader.input('\n'.join(texts) + '\n', 'natural order')
            try:
                base = self.extract(prop, base_loader, cfg)
            except Exception as e:
                # a shrunk model may be too broken to extract from; that is not what is decided here
                if len(case['ops']) < len(stmts):
                    return {'violation': None, 'digest': log.hexdigest(), 'steps': 0, 'faults': faults, 'probes': probes,
                            'states': states, 'nontrivial': False, 'lines': 0}
                raise
            step = 0
            if prop == 'C15':
                want = enum_orders(texts)
                for ename, order in sorted(want.items()):
                    got = base.get(ename)
                    if got is None or got[0] != 'enum':
                        continue
                    pos = dict(got[1])
                    fields = [f for f, _ in got[1]]
                    import keyword
                    kw = ['False', 'None', 'True'] + keyword.kwlist
                    exp = [(n + '_' if n in kw else n) for n in order]
                    if sorted(fields) != sorted(exp):
                        continue
                    for i, n in enumerate(exp):
                        if pos[n] != i:
                            raise Violation('enum-order', 'enumeration %s: enumerator %s reads %r, its position in the modelled '
                                            'succession order (%s) is %d' % (ename, n, pos[n], ' -> '.join(exp), i),
                                            'enum-order:modelled')
                    probes['enum_order_checked'] = probes.get('enum_order_checked', 0) + 1
                # seeded external entities: every bridge returns the constant its own body names
                import re as _re
                for ename, got in sorted(base.items()):
                    if not ename.startswith('SYNEE') or got[0] != 'entity':
                        continue
                    wanted = {}
                    ee_id = None
                    for t in texts:
                        mm = _re.search(r"INSERT INTO S_EE\s+VALUES \(([^,]+),\s*[^,]+,\s*[^,]+,\s*'%s'," % ename, t, _re.S)
                        if mm:
                            ee_id = mm.group(1).strip()
                    for t in texts:
                        mm = _re.search(r"INSERT INTO S_BRG\s+VALUES \([^,]+,\s*([^,]+),\s*'(b\d+)',.*?'return (\d+);'", t, _re.S)
                        if mm and mm.group(1).strip() == ee_id:
                            wanted[mm.group(2)] = int(mm.group(3))
                    if wanted:
                        probes['bridge_bodies_found'] = probes.get('bridge_bodies_found', 0) + 1
                    for f, v in got[1]:
                        if f in wanted and v != sqlgen.cv(wanted[f]):
                            raise Violation('bridge-result', 'external entity %s: bridge %s returned %r, its body is '
                                            '"return %d;"' % (ename, f, v, wanted[f]), 'bridge-result')
                    probes['bridge_results_checked'] = probes.get('bridge_results_checked', 0) + 1
                if any(v[0] == 'const' for v in base.values()):
                    probes['constants_compared'] = probes.get('constants_compared', 0) + 1
            for step, plan_seed in enumerate(cfg['plans'], 1):
                perm, cuts, routes = make_plan(plan_seed, len(texts))
                d = Delivery(self.x, plan_seed, faults)
                d.install()
                try:
                    loader = self.new_loader(cfg)
                    d.deliver(loader, chunked([texts[i] for i in perm], cuts), routes)
                finally:
                    d.uninstall()
                got = self.extract(prop, loader, cfg)
                if got != base:
                    raise Violation('row-order', 'plan %d of the same %d rows gives a different result than their natural '
                                    'order: %s' % (plan_seed, len(texts), diff_any(base, got)), 'row-order:%s' % prop)
                log.event('plan', step, perm[:10], cuts, routes)
                if perm != list(range(len(texts))):
                    probes['reordered_deliveries'] = probes.get('reordered_deliveries', 0) + 1
            if cfg.get('edit'):
                step = len(cfg['plans']) + 1
                etexts = apply_edit(texts, cfg['edit'])
                if etexts is not None:
                    warm_loader = self.new_loader(cfg)
                    warm_loader.input('\n'.join(etexts) + '\n', 'edited model')
                    outcomes = []
                    for f in (lambda: self.extract(prop, warm_loader, cfg), lambda: self.cold_extract(prop, etexts, cfg)):
                        try:
                            outcomes.append(('ok', f()))
                        except SimStall:
                            raise
                        except Exception as e:
                            outcomes.append(('raised', type(e).__name__))
                    if outcomes[0] != outcomes[1]:
                        raise Violation('history', 'the model with one edit (%r) is extracted differently by this process, '
                                        'which has extracted other variants before, and by a freshly imported library: %s'
                                        % (cfg['edit'], diff_any(outcomes[1][1], outcomes[0][1])
                                           if outcomes[0][0] == outcomes[1][0] == 'ok' else repr((outcomes[0][0], outcomes[1][0]))),
                                        'history:%s' % prop)
                    if outcomes[0][0] == 'ok':
                        probes['edit_%s_compared' % cfg['edit']['kind']] = probes.get('edit_%s_compared' % cfg['edit']['kind'], 0) + 1
                        if outcomes[0][1] != base:
                            probes['edit_changed_result'] = probes.get('edit_changed_result', 0) + 1
            states.add(stable_hash((cfg['model'], len(texts), cfg['plans'], [e[-1] for e in cfg.get('extra', [])])))
            log.event('base', stable_hash(repr(base)))
        except Violation as v:
            violation = v.as_dict(step)
        except SimStall as s:
            violation = Violation('stall', 'did not return: %s' % s).as_dict(step)
        except Exception as ex:
            import traceback
            tb = traceback.extract_tb(ex.__traceback__)
            inside = [f for f in tb if '/xtuml/' in f.filename or '/bridgepoint/' in f.filename or '/ply/' in f.filename]
            if not inside:
                raise
            where = '%s:%d' % (inside[-1].filename.rsplit('/', 1)[-1], inside[-1].lineno)
            violation = Violation('exception', 'unexpected %s: %s at %s (delivery %d)' % (type(ex).__name__, ex, where, step),
                                  'exception:%s:%s' % (type(ex).__name__, where)).as_dict(step)
        finally:
            guard.disarm()
        if violation:
            log.event('violation', violation['oracle'])
        return {'violation': violation, 'digest': log.hexdigest(), 'steps': max(step, 0) + 1, 'faults': faults,
                'probes': probes, 'states': states, 'nontrivial': bool(states), 'lines': 0}

    def reach_missing(self, prop, tier, probes, faults):
        need = ['F3_route_' + r for r in ('input', 'file_input', 'filename_input', 'dir', 'zip')]
        missing = [k for k in need if not faults.get(k)]
        if not probes.get('reordered_deliveries'):
            missing.append('reordered_deliveries')
        if prop == 'C15' and not probes.get('enum_order_checked'):
            missing.append('enum_order_checked')
        return missing


def canon_xml(el):
    '''order-free where XSD is order-free: declarations and attributes sorted, enumerators kept in order'''
    tag = el.tag
    attrib = tuple(sorted(el.attrib.items()))
    kids = [canon_xml(c) for c in list(el)]
    if not (tag == 'xs:restriction' and any(k[0] == 'xs:enumeration' for k in kids)):
        kids.sort(key=repr)
    return (tag, attrib, tuple(kids))


def diff_any(a, b):
    if isinstance(a, dict) and isinstance(b, dict):
        for k in sorted(set(a) | set(b), key=repr):
            if a.get(k) != b.get(k):
                return '%s: %s' % (k, diff_any(a.get(k), b.get(k)))
    if isinstance(a, (list, tuple)) and isinstance(b, (list, tuple)) and len(a) == len(b):
        for x_, y_ in zip(a, b):
            if x_ != y_:
                return diff_any(x_, y_)
    return ('%r vs %r' % (a, b))[:600]


ENGINE = ModelOrderEngine()
