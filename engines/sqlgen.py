'''
Populations, an independent SQL renderer, an independent tokenizer and the
canonical form of a built metamodel -- shared by the delivery engines (C03,
C12, C18) and the checkpoint/restart engine (C01).

The renderer below is deliberately *not* xtuml.serialize: it is the writer of
"some other tool" whose files pyxtuml must load.
'''
import re
import uuid

from engines import refstore
from engines.store import card, draw_value, SMALL


# ----------------------------------------------------------------------------
# rendering
# ----------------------------------------------------------------------------
def render_value(v, ty, style=0):
    ty = ty.upper()
    if v is None:
        v = refstore.null_of(ty)
    if ty == 'BOOLEAN':
        if style % 3 == 0:
            return '1' if v else '0'
        if style % 3 == 1:
            return 'TRUE' if v else 'FALSE'
        return 'true' if v else 'false'
    if ty == 'INTEGER':
        return '%d' % v
    if ty == 'REAL':
        return '%f' % v
    if ty == 'STRING':
        return "'%s'" % v.replace("'", "''")
    if ty == 'UNIQUE_ID':
        if style % 4 == 3 and 0 <= v < 10 ** 9:
            return '%d' % v         # the loader also accepts a plain number for an id
        return '"%s"' % uuid.UUID(int=v)
    raise ValueError(ty)


def render_class(c):
    return 'CREATE TABLE %s (%s);' % (c['kind'], ', '.join('%s %s' % (n, t) for n, t in c['attrs']))


def render_assoc(a):
    s = 'CREATE ROP REF_ID R%d FROM %s %s (%s)' % (a['rel'], card(a['src_many'], a['src_cond']), a['src'],
                                                   ', '.join(a.get('src_keys_as') or a['src_keys']))
    if a['src_phrase']:
        s += " PHRASE '%s'" % a['src_phrase'].replace("'", "''")
    s += ' TO %s %s (%s)' % (card(a['tgt_many'], a['tgt_cond']), a['tgt'],
                             ', '.join(a.get('tgt_keys_as') or a['tgt_keys']))
    if a['tgt_phrase']:
        s += " PHRASE '%s'" % a['tgt_phrase'].replace("'", "''")
    return s + ';'


def render_unique(u):
    return 'CREATE UNIQUE INDEX %s ON %s (%s);' % (u['name'], u['kind'], ', '.join(u.get('attrs_as') or u['attrs']))


def render_row(c, row, style):
    '''row: dict declared name -> value (all attributes).  style: dict of layout choices.'''
    kind = c['kind']
    names = [n for n, _ in c['attrs']]
    vals = [render_value(row[n], t, style.get('value', 0)) for n, t in c['attrs']]
    if style.get('named'):
        order = style.get('column_order') or list(range(len(names)))
        spell = style.get('col_spelling') or {}
        cols = [spell.get(names[i], names[i]) if not style.get('lower') else names[i].lower() for i in order]
        if style.get('kind_spelling'):
            kind = style['kind_spelling']
        vs = [vals[i] for i in order]
        return 'INSERT INTO %s (%s) VALUES (%s);' % (kind, ', '.join(cols), ', '.join(vs))
    if style.get('multiline'):
        lines = []
        for i, (n, t) in enumerate(c['attrs']):
            lines.append('\n    %s%s -- %s : %s' % (vals[i], ',' if i + 1 < len(vals) else '', n, t))
        return 'INSERT INTO %s VALUES (%s\n);' % (kind, ''.join(lines))
    return 'INSERT INTO %s VALUES (%s);' % (kind, ', '.join(vals))


# ----------------------------------------------------------------------------
# populations for the loader join (C03)
# ----------------------------------------------------------------------------
def gen_population(rng, schema_doc, max_rows=30, p_null=0.15, p_dangling=0.15, p_dup=0.15, exotic=0.0,
                   resolvable=False):
    '''
    rows: list of {'kind', 'row': index, 'values': {declared name: value}} with *stored* referential values.
    Identifying values: mostly distinct, sometimes null (0 id, '', None->null) and sometimes duplicated.
    Referential values: copied from a referred row, or null, or dangling.
    With resolvable=True (C01's "populations whose referential values resolve") ids are distinct and
    non-null and every referential tuple is either all-null or matches exactly one referred row.
    '''
    sch = refstore.Schema(schema_doc)
    rows = []
    by_kind = {}
    n_total = 0
    counters = {}

    small_domain = rng.random() < 0.35

    def fresh(ty, kind, name):
        ty = ty.upper()
        k = counters[(kind, name)] = counters.get((kind, name), 0) + 1
        if small_domain and ty in ('INTEGER', 'STRING', 'UNIQUE_ID') and not resolvable:
            # components of compound keys drawn from one small domain: tuples that are permutations of each other
            d = rng.randint(1, 3)
            return {'INTEGER': d, 'STRING': 'v%d' % d, 'UNIQUE_ID': d}[ty]
        if ty == 'UNIQUE_ID':
            return rng.choice([k, k + 100, (k << 64) + 7, 2 ** 127 + k])
        if ty == 'INTEGER':
            return k if rng.random() < 0.8 else -k
        if ty == 'STRING':
            return 'id%d' % k
        if ty == 'REAL':
            return k + 0.5
        return bool(k % 2)

    classes = [c for c in sch.classes if not c.get('bad')]
    per_class = {}
    budget = max_rows
    for c in classes:
        per_class[c['kind']] = rng.randint(0, max(1, min(6, budget)))
        budget = max(0, budget - per_class[c['kind']])
    # first pass: non-referential values
    for c in classes:
        refs = sch.referential(c['kind'])
        ident = sch.identifying(c['kind'])
        for _ in range(per_class[c['kind']]):
            values = {}
            for name, ty in c['attrs']:
                if name in refs:
                    values[name] = None
                elif name in ident:
                    r = rng.random()
                    prev = [x['values'][name] for x in by_kind.get(c['kind'], [])]
                    if not resolvable and r < p_null:
                        values[name] = refstore.null_of(ty)
                    elif not resolvable and r < p_null + p_dup and prev:
                        values[name] = rng.choice(prev)
                    else:
                        values[name] = fresh(ty, c['kind'], name)
                else:
                    values[name] = draw_value(rng, ty, exotic)
            row = {'kind': c['kind'], 'row': n_total, 'values': values}
            n_total += 1
            rows.append(row)
            by_kind.setdefault(c['kind'], []).append(row)
    # second pass: referential values, association by association (later associations may overwrite a
    # shared referential attribute -- that is what "shared" means)
    order = list(range(len(sch.assocs)))
    for _pass in range(2):      # twice, so that chained keys (identifier that is referential) settle
        for i in order:
            a = sch.assocs[i]
            tgts = by_kind.get(a['tgt'], [])
            used = set()
            for s in by_kind.get(a['src'], []):
                already = all(s['values'][k] is not None for k in a['src_keys'])
                if _pass == 1 and already:
                    continue
                r = rng.random()
                if resolvable:
                    free = [t for t in tgts if (a['src_many'] or t['row'] not in used) and t is not s
                            and all(t['values'][k] is not None and not refstore.is_null_key(t['values'][k], sch.attr_type(a['tgt'], k))
                                    for k in a['tgt_keys'])]
                    if free and r < 0.75:
                        t = rng.choice(free)
                        used.add(t['row'])
                        for sk, tk in zip(a['src_keys'], a['tgt_keys']):
                            s['values'][sk] = t['values'][tk]
                    else:
                        for sk in a['src_keys']:
                            if s['values'][sk] is None:
                                s['values'][sk] = refstore.null_of(sch.attr_type(a['src'], sk))
                    continue
                if tgts and r < 1 - p_null - p_dangling:
                    t = rng.choice(tgts)
                    for sk, tk in zip(a['src_keys'], a['tgt_keys']):
                        v = t['values'][tk]
                        s['values'][sk] = v if v is not None else refstore.null_of(sch.attr_type(a['src'], sk))
                    if len(a['src_keys']) > 1 and rng.random() < 0.15:
                        # partial match: one component differs
                        sk = rng.choice(a['src_keys'])
                        s['values'][sk] = fresh(sch.attr_type(a['src'], sk), a['src'], '~' + sk)
                elif r < 1 - p_dangling:
                    for sk in a['src_keys']:
                        s['values'][sk] = refstore.null_of(sch.attr_type(a['src'], sk))
                    if len(a['src_keys']) > 1 and rng.random() < 0.4 and tgts:
                        # only one component null
                        t = rng.choice(tgts)
                        sk, tk = rng.choice(list(zip(a['src_keys'], a['tgt_keys'])))
                        s['values'][sk] = t['values'][tk]
                else:
                    for sk in a['src_keys']:
                        s['values'][sk] = fresh(sch.attr_type(a['src'], sk), a['src'], '!' + sk)
    for row in rows:
        c = sch.cls(row['kind'])
        for name, ty in c['attrs']:
            if row['values'][name] is None:
                row['values'][name] = refstore.null_of(ty)
    return rows


def expected_pairs(schema_doc, rows):
    '''
    The join by definition (C03): per association the set of (referring row, referred row) such that
    all referential values of the referring row are non-null and equal the referred row's identifying values.
    '''
    sch = refstore.Schema(schema_doc)
    out = []
    for a in sch.assocs:
        pairs = set()
        if not a['src_keys']:
            # an association without key attributes (unformalized) has no referring instances: nothing to join,
            # which is also what creating the same rows through the API gives
            out.append(pairs)
            continue
        for s in rows:
            if s['kind'].upper() != a['src'].upper():
                continue
            vals = [s['values'][k] for k in a['src_keys']]
            if any(refstore.is_null_key(v, sch.attr_type(a['src'], k)) for v, k in zip(vals, a['src_keys'])):
                continue
            for t in rows:
                if t['kind'].upper() != a['tgt'].upper():
                    continue
                tv = [t['values'][k] for k in a['tgt_keys']]
                if any(refstore.is_null_key(v, sch.attr_type(a['tgt'], k)) for v, k in zip(tv, a['tgt_keys'])):
                    continue
                if all(type(x) is type(y) and x == y for x, y in zip(vals, tv)):
                    pairs.add((s['row'], t['row']))
        out.append(pairs)
    return out


# ----------------------------------------------------------------------------
# tokenizer of the SQL dialect (independent of xtuml.load)
# ----------------------------------------------------------------------------
TOKEN_RE = re.compile(r'''
    (?P<comment>--[^\n]*\n?)
  | (?P<string>'(?:''|[^'])*')
  | (?P<guid>"[^"\n]*")
  | (?P<fraction>\d+\.\d+)
  | (?P<number>\d+)
  | (?P<ident>[A-Za-z_][A-Za-z_0-9]*)
  | (?P<punct>[(),;\-])
  | (?P<ws>[ \t\r\n\x0c]+)
  | (?P<other>.)
''', re.X | re.S)


def tokenize(text):
    '''list of (kind, start, end); covers the whole text'''
    out = []
    for m in TOKEN_RE.finditer(text):
        out.append((m.lastgroup, m.start(), m.end()))
    return out


def split_statements(text):
    '''statement texts (each ending with ';' plus trailing whitespace/comment up to the next statement)'''
    toks = tokenize(text)
    out = []
    start = 0
    for kind, s, e in toks:
        if kind == 'punct' and text[s:e] == ';':
            out.append(text[start:e])
            start = e
    tail = text[start:]
    if tail.strip():
        out.append(tail)
    elif out:
        out[-1] += tail
    return out


# ----------------------------------------------------------------------------
# canonical form of a built metamodel, through the public API only
# ----------------------------------------------------------------------------
def cv(v):
    if isinstance(v, bool):
        return 'b:%r' % v
    if isinstance(v, float):
        return 'f:%r' % v
    if isinstance(v, int):
        return 'i:%d' % v
    if isinstance(v, str):
        return 's:%s' % v
    if v is None:
        return None
    return 'o:%s' % type(v).__name__


def canon_model(xtuml, m, order_free=False, marker=None):
    '''
    {'schema': text, 'ids': text, 'classes': {KIND: [row tuples]}, 'links': {assoc key: [pairs]}}
    Instances are named (KIND, position in pool) or, with a marker attribute, by its value.
    order_free: sort rows and pairs (instance order legitimately follows statement order).
    '''
    doc = {'schema': xtuml.serialize_schema(m), 'ids': xtuml.serialize_unique_identifiers(m),
           'classes': {}, 'links': {}}
    if order_free:
        # the order of schema statements in the text is not promised (ties follow statement order)
        doc['schema'] = sorted(doc['schema'].split(';\n'))
        doc['ids'] = sorted(doc['ids'].split(';\n'))
    name_of = {}
    for ukind in sorted(m.metaclasses):
        mc = m.metaclasses[ukind]
        rows = []
        for pos, inst in enumerate(m.select_many(mc.kind)):
            ident = (ukind, pos)
            if marker:
                try:
                    ident = (ukind, getattr(inst, marker))
                except AttributeError:
                    pass
            name_of[id(inst)] = ident
            vals = []
            for name, ty in mc.attributes:
                try:
                    vals.append(cv(getattr(inst, name)))
                except AttributeError:
                    vals.append('<unset>')
            rows.append((ident, tuple(vals)))
        if order_free:
            rows.sort(key=repr)
        doc['classes'][ukind] = rows
    keep = []
    for n, ass in enumerate(m.associations):
        src = ass.source_link.to_metaclass
        tgt = ass.target_link.to_metaclass
        key = '%s:%s(%s)->%s(%s)#%d' % (ass.rel_id, src.kind, ','.join(ass.source_keys), tgt.kind,
                                        ','.join(ass.target_keys), n if not order_free else 0)
        pairs = []
        for inst in m.select_many(src.kind):
            keep.append(inst)
            for other in xtuml.navigate_many(inst).nav(tgt.kind, ass.rel_id, ass.target_link.phrase)():
                pairs.append((name_of.get(id(inst)), name_of.get(id(other), 'foreign')))
        back = []
        for inst in m.select_many(tgt.kind):
            for other in xtuml.navigate_many(inst).nav(src.kind, ass.rel_id, ass.source_link.phrase)():
                back.append((name_of.get(id(other), 'foreign'), name_of.get(id(inst))))
        if order_free:
            pairs.sort(key=repr)
            back.sort(key=repr)
        doc['links'].setdefault(key, []).append({'fwd': pairs, 'back': back})
    return doc
