'''
Engine `parties` -- property C18 (DESIGN.md §4/C18).

Parties: one real ModelLoader, up to four metamodels built from it at
different times, one or two mutator clients.  The seeded scheduler interleaves

  input(chunk)        valid chunk of statements, or an F2-faulty chunk (intact
                      statements followed by damaged text) that must be rejected
  build(slot)         build a new metamodel from the loader into a slot
  mutations of a built metamodel: new, delete, setattr, relate, unrelate,
                      append_attribute, delete_attribute, define_unique_identifier,
                      define_class

Both oracles are model-free.  Non-interference: the canonical digest of
metamodel j (schema, identifiers, instances, links through navigation, and
xtuml.serialize) is unchanged by every operation addressed to the loader or to
a metamodel i != j.  Prefix exactness: at build time the new metamodel equals
the build of a fresh twin loader fed exactly the chunks accepted so far.
'''
import random

from sim.engine import Engine, Log, Violation, stable_hash
from sim.meter import SimStall, WallGuard
from sim.rng import Streams, weighted
from sim import seams
from sim.disk import SimDisk
from engines import refstore, sqlgen
from engines.store import draw_value

SLOTS = 4
GARBAGE = ['INSERT INTO ;', 'CREATE TABLE (', "INSERT INTO X VALUES ('unterminated", 'CREATE ROP REF_ID R1 FROM 2 A (Id) TO 1 B (Id);',
           'CREATE ROP REF_ID R1 FROM X A (Id) TO 1 B (Id);', '@', 'INSERT INTO Y VALUES (1,);', 'SELECT 1;', 'CREATE UNIQUE INDEX ON ;']


class PartiesEngine(Engine):
    name = 'parties'
    props = ('C18',)
    WALL_S = 20.0

    def setup(self, prop, tier):
        import xtuml
        import xtuml.load
        self.x = xtuml
        self.xload = xtuml.load
        seams.install_entropy()

    def plan(self, prop, tier):
        if tier == 'quick':
            return {'runs': 12000, 'chunk': 100, 'wall_cap': 200, 'determinism_runs': 40}
        return {'runs': 400000, 'chunk': 500, 'wall_cap': 2400, 'determinism_runs': 600}

    def describe(self, prop):
        return {
            'level': 'exploration',
            'rule': ('seeded interleavings (10-40 steps; thorough: up to 120) of input (valid and deliberately rejected '
                     'chunks, through input() and file routes of the simulated disk), builds into up to four slots and '
                     'mutations of the built metamodels by 1-2 clients, over a seeded schema and population. After every '
                     'step the digest of every metamodel that was not addressed must be unchanged; every build must equal '
                     'the build of a fresh twin loader fed the accepted chunks. A case is distinct by the hash of its '
                     'sequence of (op kind, target) pairs and non-trivial when at least two metamodels existed while a '
                     'third party (another metamodel or the loader) was operated on. distinct_nontrivial counts those.'),
            'components': {
                'real': ['xtuml.load.ModelLoader (statement accumulation, populate_*)', 'xtuml.meta (MetaModel, MetaClass, '
                         'relate/unrelate/delete, define_*)', 'xtuml.persist.serialize', 'CPython io stack'],
                'stub': ['disk below io.RawIOBase (SimDisk)', 'uuid.uuid4'],
                'oracle': ['digest of each metamodel before/after (non-interference)', 'fresh twin loader (prefix exactness)'],
            },
            'assumptions': ['digests are taken through the public API (select_many, getattr, navigate_many, serialize)'],
        }

    # ------------------------------------------------------------------ generate
    def generate(self, prop, seed, tier, idx):
        st = Streams(seed)
        sw = st['swarm']
        schema = refstore.gen_schema(st['schema'], profile={'max_shapes': sw.choice([1, 2, 3])})
        rows = sqlgen.gen_population(st['population'], schema, max_rows=sw.choice([6, 12, 20]), resolvable=sw.random() < 0.5)
        sch = refstore.Schema(schema)
        rng = st['ops']
        stmts = [sqlgen.render_class(c) for c in schema['classes']]
        stmts += [sqlgen.render_assoc(a) for a in schema['assocs']]
        stmts += [sqlgen.render_unique(u) for u in schema['uniques']]
        head = len(stmts)
        body = [sqlgen.render_row(sch.cls(r['kind']), r['values'], {'value': rng.randrange(12),
                                                                    'named': rng.random() < 0.3}) for r in rows]
        if rng.random() < 0.3:
            allst = stmts + body
            rng.shuffle(allst)
        else:
            allst = stmts + body
        # chunks: the schema mostly first (a build before the classes exist is legal but dull)
        k = rng.randint(2, 7)
        cuts = sorted(rng.sample(range(1, len(allst)), min(k - 1, len(allst) - 1))) if len(allst) > 1 else []
        chunks = []
        prev = 0
        for c in cuts + [len(allst)]:
            chunks.append('\n'.join(allst[prev:c]) + '\n')
            prev = c
        steps = sw.randint(10, 40) if tier == 'quick' or sw.random() < 0.8 else sw.randint(40, 120)
        clients = sw.choice([1, 2])
        sched = st['sched']
        ops = []
        nchunk = 0
        built = 0
        p_fault = sw.choice([0.0, 0.1, 0.25])
        while len(ops) < steps:
            actor = sched.randrange(clients + 1)       # actor 0 feeds the loader and builds
            if actor == 0 or built == 0:
                r = rng.random()
                if r < p_fault:
                    good = rng.choice(chunks) if rng.random() < 0.7 else ''
                    ops.append({'a': 0, 'op': 'bad_input', 'text': good + rng.choice(GARBAGE),
                                'route': rng.choice(['input', 'input', 'file'])})
                elif r < 0.55 and nchunk < len(chunks):
                    ops.append({'a': 0, 'op': 'input', 'text': chunks[nchunk], 'route': rng.choice(['input', 'input', 'file'])})
                    nchunk += 1
                else:
                    ops.append({'a': 0, 'op': 'build', 'slot': rng.randrange(SLOTS) if built >= 2 else built,
                                # some builds bring their own id generator, the others get a fresh default one
                                'gen': rng.choice([None, None, 'integer'])})
                    built += 1
                continue
            slot = rng.randrange(SLOTS)
            kind = rng.choice(schema['classes'])['kind']
            f = weighted(rng, [(3, 'new'), (2, 'delete'), (3, 'set'), (3, 'relate'), (2, 'unrelate'), (1, 'append_attr'),
                               (1, 'delete_attr'), (1, 'def_unique'), (0.7, 'def_class'), (0.5, 'clone_into')])
            op = {'a': actor, 'op': f, 'slot': slot, 'kind': kind, 'i': rng.randrange(8), 'j': rng.randrange(8)}
            if f == 'set':
                attrs = [(n, t) for n, t in sch.attrs(kind) if n not in sch.referential(kind)]
                if not attrs:
                    continue
                n, t = rng.choice(attrs)
                op.update(name=n, v=draw_value(rng, t, 0.1))
            elif f in ('relate', 'unrelate'):
                if not schema['assocs']:
                    continue
                op['assoc'] = rng.randrange(len(schema['assocs']))
            elif f == 'delete_attr':
                attrs = [n for n, t in sch.attrs(kind)
                         if rng.random() < 0.3 or (n not in sch.referential(kind) and n not in sch.identifying(kind))]
                if not attrs:
                    continue
                op['name'] = rng.choice(attrs)
            elif f == 'def_unique':
                op['name'] = rng.choice([n for n, _ in sch.attrs(kind)])
            elif f == 'clone_into':
                op['from'] = rng.randrange(SLOTS)
            ops.append(op)
        if sw.random() < 0.2 and schema['classes']:
            # the last act of some histories: text that is accepted but that no build can digest (an association over
            # an attribute or a class that does not exist), followed by builds -- every one of them has to be
            # refused, by this loader and by a fresh one fed the same texts
            c = rng.choice(schema['classes'])
            poison = rng.choice([
                "CREATE ROP REF_ID R99 FROM MC %s (Nope_) TO 1 %s (%s);\n" % (c['kind'], c['kind'], c['attrs'][0][0]),
                "CREATE ROP REF_ID R98 FROM MC %s (%s) TO 1 Nowhere_ (Id);\n" % (c['kind'], c['attrs'][0][0]),
                "CREATE UNIQUE INDEX I9 ON Nowhere_ (Id);\n",
                "CREATE TABLE %s (Again_ INTEGER);\n" % c['kind'],
            ])
            ops.append({'a': 0, 'op': 'input', 'text': poison, 'route': 'input'})
            for _ in range(rng.randint(2, 3)):
                ops.append({'a': 0, 'op': 'build', 'slot': rng.randrange(SLOTS), 'gen': None})
        cfg = {'schema': schema, 'clients': clients}
        return {'prop': prop, 'engine': self.name, 'seed': seed, 'cfg': cfg, 'ops': ops}

    def sample(self, case):
        return {'seed': case['seed'], 'ops': [{k: (v if k != 'text' else v[:60]) for k, v in op.items()}
                                              for op in case['ops'][:30]], 'ops_total': len(case['ops'])}

    # ------------------------------------------------------------------- execute
    def digest(self, m):
        x = self.x
        try:
            text = x.serialize(m)
        except Exception as e:
            text = '<serialize raised %s>' % type(e).__name__
        return stable_hash((sqlgen.canon_model(x, m), text))

    def execute(self, case):
        x = self.x
        cfg = case['cfg']
        sch = refstore.Schema(cfg['schema'])
        log = Log()
        faults, probes = {}, {}
        states = set()
        guard = WallGuard()
        guard.arm(cfg.get('wall_s', self.WALL_S))
        violation = None
        step = -1
        disk = SimDisk(random.Random(case['seed'] & 0xffffffff))
        disk.short_read = True
        saved_open = getattr(self.xload, 'open', None)
        self.xload.open = disk.open

        def bump(d, k, n=1):
            d[k] = d.get(k, 0) + n
        generators = []

        try:
            loader = x.ModelLoader()
            accepted = []
            models = {}         # slot -> metamodel
            digests = {}        # slot -> digest
            shape = []
            for step, op in enumerate(case['ops']):
                k = op['op']
                target = None
                if k in ('input', 'bad_input'):
                    nstat = len(loader.statements)
                    try:
                        if op['route'] == 'file':
                            path = '/p/%d.sql' % step
                            disk.put(path, op['text'])
                            if step % 2:
                                loader.filename_input(path)
                            else:
                                with disk.open(path, 'r', newline='') as f:
                                    loader.file_input(f)
                        else:
                            loader.input(op['text'])
                        accepted.append(op['text'])
                        outcome = 'accepted'
                    except x.ParsingException:
                        outcome = 'rejected'
                        bump(faults, 'F2_rejected_input')
                    if k == 'input' and outcome == 'rejected':
                        raise Violation('input', 'step %d: a valid chunk was rejected: %r' % (step, op['text'][:200]), 'input:valid-rejected')
                elif k == 'build':
                    slot = op['slot'] % SLOTS
                    target = slot
                    own_gen = x.IntegerGenerator() if op.get('gen') == 'integer' else None
                    try:
                        m = loader.build_metamodel(own_gen) if own_gen is not None else loader.build_metamodel()
                    except (x.ParsingException, x.MetaException) as e:
                        m = None
                        outcome = type(e).__name__
                    twin = x.ModelLoader()
                    for text in accepted:
                        twin.input(text)
                    try:
                        tm = twin.build_metamodel(x.IntegerGenerator()) if own_gen is not None else twin.build_metamodel()
                    except (x.ParsingException, x.MetaException) as e:
                        tm = None
                        tout = type(e).__name__
                    if (m is None) != (tm is None):
                        raise Violation('prefix', 'step %d: the loader %s while a twin loader fed the same %d accepted chunks %s'
                                        % (step, 'built a metamodel' if m is not None else 'raised ' + outcome,
                                           len(accepted), 'built a metamodel' if tm is not None else 'raised ' + tout),
                                        'prefix:outcome')
                    if m is not None:
                        a, b = sqlgen.canon_model(x, m), sqlgen.canon_model(x, tm)
                        if a != b or x.serialize(m) != x.serialize(tm):
                            raise Violation('prefix', 'step %d: the metamodel built after %d accepted chunks differs from the '
                                            'build of a fresh loader fed the same chunks: %s'
                                            % (step, len(accepted), diff_canon(a, b)), 'prefix:content')
                        # the source of fresh ids is part of a metamodel: the generator handed to this build, or one
                        # that no other metamodel of this loader draws from
                        g = m.id_generator

                        def same_source(g1, g2):
                            # behavioural where possible: two sources that announce the same next id are one source
                            if g1 is g2:
                                return True
                            p1, p2 = getattr(g1, 'peek', None), getattr(g2, 'peek', None)
                            return callable(p1) and callable(p2) and p1() == p2()
                        if own_gen is None and any(same_source(g, og) for og in generators):
                            raise Violation('interference', 'step %d: a build without an id generator shares the generator '
                                            'of an earlier build: ids created in one metamodel advance the other' % step,
                                            'interference:id-generator-shared')
                        generators.append(g)
                        if own_gen is not None:
                            bump(probes, 'build_with_own_generator')
                        models[slot] = m
                        outcome = 'built'
                        bump(probes, 'builds')
                        if len(models) >= 2:
                            bump(probes, 'build_with_older_models')
                    else:
                        target = None
                else:
                    slot = op['slot'] % SLOTS
                    if slot not in models:
                        log.event(step, 'skip', k)
                        continue
                    target = slot
                    outcome = self.mutate(models, slot, op, sch, cfg['schema'])
                    bump(probes, 'mut_%s_%s' % (k, outcome))
                # non-interference
                for j, m in models.items():
                    d = self.digest(m)
                    if j == target or j not in digests:
                        digests[j] = d
                    elif digests[j] != d:
                        raise Violation('interference', 'step %d: %s addressed to %s changed metamodel in slot %d'
                                        % (step, {kk: (vv if kk != 'text' else vv[:80]) for kk, vv in op.items()},
                                           'the loader' if target is None else 'slot %d' % target, j),
                                        'interference:%s' % k)
                shape.append((k, target))
                if len(models) >= 2:
                    bump(probes, 'steps_with_2_models')
                log.event(step, k, target, outcome)
            if probes.get('steps_with_2_models'):
                states.add(stable_hash(shape))
        except Violation as v:
            violation = v.as_dict(step)
        except SimStall as s:
            violation = Violation('stall', 'step %d did not return: %s' % (step, s)).as_dict(step)
        except Exception as ex:
            import traceback
            tb = traceback.extract_tb(ex.__traceback__)
            inside = [f for f in tb if '/xtuml/' in f.filename or '/bridgepoint/' in f.filename or '/ply/' in f.filename]
            if not inside:
                raise
            where = '%s:%d' % (inside[-1].filename.rsplit('/', 1)[-1], inside[-1].lineno)
            op = case['ops'][step] if 0 <= step < len(case['ops']) else {}
            violation = Violation('exception', 'step %d (%s): unexpected %s: %s at %s'
                                  % (step, op.get('op'), type(ex).__name__, ex, where),
                                  'exception:%s:%s' % (type(ex).__name__, op.get('op'))).as_dict(step)
        finally:
            guard.disarm()
            if saved_open is None:
                try:
                    del self.xload.open
                except AttributeError:
                    pass
            else:
                self.xload.open = saved_open
        for kk, vv in disk.fired.items():
            bump(faults, kk, vv)
        if violation:
            log.event('violation', violation['oracle'])
        return {'violation': violation, 'digest': log.hexdigest(), 'steps': step + 1, 'faults': faults,
                'probes': probes, 'states': states, 'nontrivial': bool(states), 'lines': 0}

    def mutate(self, models, slot, op, sch, schema):
        x = self.x
        m = models[slot]
        k = op['op']
        kind = op['kind']

        def pick(kd, n):
            try:
                insts = list(m.select_many(kd))
            except x.MetaException:
                return None
            return insts[n % len(insts)] if insts else None
        try:
            if k == 'new':
                m.new(kind)
            elif k == 'delete':
                inst = pick(kind, op['i'])
                if inst is None:
                    return 'none'
                x.delete(inst)
            elif k == 'set':
                inst = pick(kind, op['i'])
                if inst is None:
                    return 'none'
                setattr(inst, op['name'], op['v'])
            elif k in ('relate', 'unrelate'):
                a = schema['assocs'][op['assoc'] % len(schema['assocs'])]
                s, t = pick(a['src'], op['i']), pick(a['tgt'], op['j'])
                if s is None or t is None:
                    return 'none'
                (x.relate if k == 'relate' else x.unrelate)(s, t, a['rel'], a['src_phrase'])
            elif k == 'append_attr':
                m.find_metaclass(kind).append_attribute('Extra%d' % op['i'], 'integer')
            elif k == 'delete_attr':
                m.find_metaclass(kind).delete_attribute(op['name'])
            elif k == 'def_unique':
                m.define_unique_identifier(kind, 'I9%d' % op['i'], op['name'])
            elif k == 'def_class':
                m.define_class('NewK%d' % op['i'], [('Id', 'unique_id'), ('N', 'string')])
            elif k == 'clone_into':
                src = models.get(op['from'] % SLOTS)
                if src is None:
                    return 'none'
                try:
                    insts = list(src.select_many(kind))
                except x.MetaException:
                    return 'none'
                if not insts:
                    return 'none'
                m.clone(insts[op['i'] % len(insts)])
            return 'ok'
        except x.MetaException as e:
            return type(e).__name__
        except (AttributeError, TypeError, ValueError, KeyError) as e:
            # e.g. clone after delete_attribute shifts positional values into columns of another type: what a
            # mutated metamodel does to itself is outside this property; only other parties are watched
            return type(e).__name__


def diff_canon(c0, c1):
    for k in ('schema', 'ids'):
        if c0[k] != c1[k]:
            return '%s differs' % k
    for k in sorted(set(c0['classes']) | set(c1['classes'])):
        a, b = c0['classes'].get(k), c1['classes'].get(k)
        if a != b:
            return 'instances of %s differ: %r vs %r' % (k, a, b)
    for k in sorted(set(c0['links']) | set(c1['links'])):
        a, b = c0['links'].get(k), c1['links'].get(k)
        if a != b:
            return 'links %s differ: %r vs %r' % (k, a, b)
    return 'serialized text differs'


ENGINE = PartiesEngine()
