'''
Engine `store` -- properties C02 C09 C10 C11 C16 C19 (+ C01 with the simulated
disk, see engines/storedisk.py) -- DESIGN.md §4.

1-3 logical clients drive one real xtuml.MetaModel through a seeded, interleaved
history of API calls (new / relate / unrelate / delete / attribute access /
queries / navigation / sorting / consistency checks / id generator calls).
Fault kind F1 -- calls the API documents as rejected -- is generated on purpose
right after the state that makes them illegal.  A relational reference model
(engines/refstore.py) executes the same history; after *every* step the whole
observable state of the real model (pools, attribute reads, navigation from
both ends of every association, serialized text) is compared with it, using
the public API only.
'''
import itertools
import random

from sim.engine import Engine, Log, Violation, stable_hash
from sim.meter import SimStall, WallGuard, Meter
from sim.rng import Streams, weighted
from sim import seams
from sim import build
from engines import refstore
from engines.refstore import RefStore, RefError, Schema

PROPS = ('C02', 'C09', 'C10', 'C11', 'C16', 'C19')


class Skip(Exception):
    '''The op is not applicable in the current (possibly shrunk) state, or its outcome is not defined by the statements.'''


# ----------------------------------------------------------------------------
# values and spellings
# ----------------------------------------------------------------------------
SMALL = {
    'BOOLEAN': [True, False],
    'INTEGER': [0, 1, 2, 3, -1],
    'REAL': [0.0, 1.5, -2.25, 3.0, 10.0],
    'STRING': ['', 'a', 'b', 'A', 'ab'],
    'UNIQUE_ID': [1, 2, 3, 4, 0],
}
EXOTIC = {
    'BOOLEAN': [True, False],
    'INTEGER': [-7, 2 ** 63, -2 ** 64 - 1, 10 ** 30, 123456789012345678901234567890],
    'REAL': [1e15 + 0.5, -1234567.890625, 0.000001, 2.0 ** 40, -0.5, 1200.0, -30.0, 1e20, 100.25],
    'STRING': ["it's", "''", "a--b", "-- x", "l1\nl2", "select x;\n-- remark\nreturn x;", "a\n   \t-- b", "--\n--",
               "'''", "''''", "a''b''", "x\ty", "q\"q", "\u00fc\u2603", "\x00z", "a'';b", " lead", "trail ",
               "CREATE TABLE", "'"],
    'UNIQUE_ID': [2 ** 128 - 1, 2 ** 127, 2 ** 64, 5],
}


def draw_value(rng, ty, p_exotic=0.0):
    ty = ty.upper()
    if rng.random() < p_exotic:
        return rng.choice(EXOTIC[ty])
    return rng.choice(SMALL[ty])


def spellings(name):
    '''All case patterns of a short name; a fixed sample for longer ones.'''
    letters = [i for i, ch in enumerate(name) if ch.isalpha()]
    if len(letters) <= 4:
        out = []
        for mask in range(1 << len(letters)):
            s = list(name.lower())
            for j, i in enumerate(letters):
                if mask >> j & 1:
                    s[i] = s[i].upper()
            out.append(''.join(s))
        return out
    return [name, name.lower(), name.upper(), name.swapcase(), name.capitalize(), name.title()]


def spell(rng, name, policy):
    if policy == 'declared' or rng.random() < 0.25:
        return name
    return rng.choice(spellings(name))


# ----------------------------------------------------------------------------
# building the real model
# ----------------------------------------------------------------------------
def card(many, cond):
    return ('M' if many else '1') + ('C' if cond else '')


def render_schema_sql(doc, with_tables=True):
    '''Independent renderer of a schema document into the SQL dialect (not xtuml.serialize).'''
    out = []
    if with_tables:
        for c in doc['classes']:
            out.append('CREATE TABLE %s (%s);\n' % (c['kind'], ', '.join('%s %s' % (n, t) for n, t in c['attrs'])))
    for a in doc['assocs']:
        s = 'CREATE ROP REF_ID R%d FROM %s %s (%s)' % (a['rel'], card(a['src_many'], a['src_cond']), a['src'],
                                                       ', '.join(a.get('src_keys_as') or a['src_keys']))
        if a['src_phrase']:
            s += " PHRASE '%s'" % a['src_phrase'].replace("'", "''")
        s += ' TO %s %s (%s)' % (card(a['tgt_many'], a['tgt_cond']), a['tgt'],
                                 ', '.join(a.get('tgt_keys_as') or a['tgt_keys']))
        if a['tgt_phrase']:
            s += " PHRASE '%s'" % a['tgt_phrase'].replace("'", "''")
        out.append(s + ';\n')
    for u in doc['uniques']:
        out.append('CREATE UNIQUE INDEX %s ON %s (%s);\n' % (u['name'], u['kind'],
                                                             ', '.join(u.get('attrs_as') or u['attrs'])))
    return ''.join(out)


def user_sequence(k):
    return 1000 + 7 * k


def make_idgen(xtuml, kind, seed):
    '''Returns (real generator object, reference generator).'''
    ent = seams.install_entropy()
    ent.reset(seed)
    if kind == 'integer':
        return xtuml.IntegerGenerator(), refstore.RefIntegerGen()
    if kind == 'user':
        class UserGen(xtuml.IdGenerator):
            def __init__(self):
                self.k = 0
                xtuml.IdGenerator.__init__(self)

            def readfunc(self):
                v = user_sequence(self.k)
                self.k += 1
                return v
        return UserGen(), refstore.RefSequenceGen(user_sequence)
    if kind == 'user_next':
        seq = [v for v in range(1, 20000) if v % 5]
        if xtuml is _FakeXtuml:
            return None, refstore.RefSequenceGen(lambda k: seq[k])

        # a generator that specialises next(): ids divisible by five are reserved and skipped
        class SkippingGen(xtuml.IntegerGenerator):
            peek = None         # what peek() means for such a generator is its own business: not compared

            def next(self):
                v = xtuml.IntegerGenerator.next(self)
                while v % 5 == 0:
                    v = xtuml.IntegerGenerator.next(self)
                return v
        return SkippingGen(), refstore.RefSequenceGen(lambda k: seq[k])
    if kind == 'iter':
        return itertools.count(500, 3), refstore.RefSequenceGen(lambda k: 500 + 3 * k)
    if xtuml is not _FakeXtuml and not seams.uuid_through_seam(xtuml):
        # opaque mode: the library does not draw from the owned uuid4; ids are judged as the library hands them out
        g, tape = seams.tape_generator(xtuml)
        return g, refstore.RefSequenceGen(tape.get)
    if kind == 'uuid_default':
        return None, refstore.RefSequenceGen(lambda k: seams.entropy_value(seed, k))
    return xtuml.UUIDGenerator(), refstore.RefSequenceGen(lambda k: seams.entropy_value(seed, k))


def render_preload(doc, rows):
    from engines import sqlgen
    sch = Schema(doc)
    return '\n'.join(sqlgen.render_row(sch.cls(r['kind']), r['values'], r.get('style', {})) for r in rows) + '\n'


def preload_draws(doc, rows):
    '''ids the loader draws from the generator while creating the loaded instances (then overwritten)'''
    sch = Schema(doc)
    n = 0
    for r in rows:
        refs = sch.referential(r['kind'])
        n += len([1 for name, ty in sch.attrs(r['kind']) if name not in refs and ty.upper() == 'UNIQUE_ID'])
    return n


def build_model(xtuml, doc, route, idgen, preload_rows=None):
    if route == 'text':
        loader = xtuml.ModelLoader()
        loader.input(render_schema_sql(doc))
        if preload_rows:
            loader.input(render_preload(doc, preload_rows))
        return loader.build_metamodel(idgen)
    m = xtuml.MetaModel(idgen)
    for c in doc['classes']:
        m.define_class(c['kind'], [tuple(a) for a in c['attrs']])
    assocs = []
    for a in doc['assocs']:
        assocs.append(m.define_association(a['rel'] if route == 'api' else 'R%d' % a['rel'],
                                           a['src'], list(a.get('src_keys_as') or a['src_keys']), a['src_many'],
                                           a['src_cond'],
                                           a['src_phrase'], a['tgt'], list(a.get('tgt_keys_as') or a['tgt_keys']),
                                           a['tgt_many'],
                                           a['tgt_cond'], a['tgt_phrase']))
    for ass in assocs:
        ass.formalize()
    for u in doc['uniques']:
        m.define_unique_identifier(u['kind'], u['name'], *(u.get('attrs_as') or u['attrs']))
    return m


# ----------------------------------------------------------------------------
# generation
# ----------------------------------------------------------------------------
PROFILES = {
    # weights of op families per property; every profile keeps the full state comparison on
    'C02': dict(new=5, relate=9, relate_dup=1.5, relate_overflow=2.5, relate_unknown=1.2, relate_none=0.5,
                unrelate=4, unrelate_unlinked=1.5, delete=2, delete_again=1, setattr=1, select=0.5, nav=1,
                new_ref=1, undo=1, grow=0.25),
    'C09': dict(new=5, relate=8, relate_overflow=0.5, unrelate=2.5, delete=1.5, setattr=3, select=9, nav=9,
                subtype=1.5, hold=1.5, recheck=2, new_ref=1, nav_bad=0.5, swap_attr=0.3, grow=0.25),
    'C10': dict(new=3, new_kw=3, new_ref=1.5, relate=3, unrelate=1, setattr=10, getattr=6, delattr=1.2, set_ref=1,
                select_eq=5, find_class=1.5, delete=0.5, del_unset=0.4, define_again=0.5, add_attr=0.3,
                swap_attr=0.6, grow=0.25),
    'C11': dict(new=5, relate=7, unrelate=4, delete=2, setattr_id=5, setattr=1, check=6, new_ref=1, grow=0.5),
    'C16': dict(new_n=5, relate_n=10, unrelate_n=3, delete=1.2, sort=8, sort_partial=2, relate_overflow=1.5,
                new=1, relate=1),
    'C19': dict(new=4, new_args=9, new_kw=4, new_bad=1, idgen=5, relate=2, delete=1, setattr=1, select=1, swap_idgen=0.6,
                add_attr=0.8, swap_attr=0.5, grow=0.2, reseed=0.8),
}


class Gen(object):
    '''Generates one case against a generation-time copy of the reference model.'''
    def __init__(self, prop, seed, tier):
        self.prop = prop
        self.seed = seed
        self.st = Streams(seed)
        sw = self.st['swarm']
        self.rng = self.st['ops']
        want = {'C16': [sw.choice(['reflexive', 'reflexive', 'reflexive_twice'])]}.get(prop, [])
        profile = {}
        if prop == 'C19':
            profile = {'bad_type': 0.5, 'max_plain': 5, 'max_shapes': 2}
        if prop == 'C16':
            profile = {'p_shape': 0.15, 'max_shapes': 2}
        if prop == 'C10':
            profile = {'max_plain': 4, 'max_shapes': 3}
        schema = refstore.gen_schema(self.st['schema'], want=want, profile=profile)
        self.cfg = {
            'schema': schema,
            'route': sw.choice(['api', 'api_str', 'text']),
            'idgen': sw.choice(['uuid', 'uuid', 'uuid_default', 'integer', 'user'] +
                               (['iter', 'user_next'] if prop == 'C19' else [])),
            'clients': sw.choice([1, 2, 3]),
            'steps': sw.randint(20, 80) if tier == 'quick' or sw.random() < 0.85 else sw.randint(80, 250),
            'spelling': sw.choice(['declared', 'random']) if prop != 'C10' else 'random',
            'p_exotic': sw.choice([0.0, 0.0, 0.15]),
            'max_live': sw.choice([6, 9, 12]),
            'meter': sw.random() < (0.3 if prop == 'C16' else 0.05),
        }
        if prop == 'C10':
            self.cfg['shadow'] = sw.choice([None, 'upper', 'lower', 'swap'])
        if prop in ('C02', 'C09', 'C11', 'C16', 'C10') and sw.random() < 0.3 and not self.cfg.get('shadow'):
            # the history starts from a *loaded* population (null / duplicate / dangling keys: states with
            # over-populated ends that the API alone cannot reach)
            from engines import sqlgen
            rows = sqlgen.gen_population(self.st['population'], schema, max_rows=sw.choice([4, 8]),
                                         p_null=sw.choice([0.0, 0.15]), p_dangling=sw.choice([0.0, 0.15]),
                                         p_dup=sw.choice([0.0, 0.2, 0.4]))
            prng = self.st['preload']
            for r in rows:
                r['style'] = {'value': prng.randrange(12), 'multiline': prng.random() < 0.3}
                if prop == 'C10' or prng.random() < 0.15:
                    # named columns, each under its own spelling, class name too
                    r['style'] = {'value': prng.randrange(12), 'named': True,
                                  'col_spelling': {n: prng.choice(spellings(n)) for n, _ in self.sch_attrs(schema, r['kind'])},
                                  'kind_spelling': prng.choice(spellings(r['kind']))}
            self.cfg['preload'] = rows
            self.cfg['route'] = 'text'
            self.cfg['max_live'] = max(self.cfg['max_live'], len(rows) + 3)
        if self.cfg['route'] == 'text' and self.cfg['idgen'] == 'uuid_default':
            self.cfg['idgen'] = 'uuid'
        w = dict(PROFILES[prop])
        # swarm: knock out a random subset of op families (never the ones the property is about)
        keep = {'C02': ('relate', 'new'), 'C09': ('select', 'nav', 'new', 'relate'), 'C10': ('setattr', 'getattr', 'new'),
                'C11': ('check', 'new', 'relate'), 'C16': ('sort', 'new_n', 'relate_n'),
                'C19': ('new_args', 'new', 'idgen'), 'C01': ('new', 'relate', 'setattr', 'checkpoint')}[prop]
        for k in list(w):
            if k not in keep and sw.random() < 0.2:
                del w[k]
        self.cfg['weights'] = w
        import copy
        self.sch = Schema(copy.deepcopy(schema))
        _, refgen = make_idgen(_FakeXtuml, self.cfg['idgen'], seed)
        self.ref = RefStore(self.sch, refgen)
        if self.cfg.get('preload'):
            init_preload(self.ref, schema, self.cfg['preload'])
        self.ops = []
        self.nh = 0
        self.dead = []
        self.holds = 0
        self.good_classes = [c for c in self.sch.classes if not c.get('bad')]
        self.bad_classes = [c for c in self.sch.classes if c.get('bad')]

    # ---- helpers
    @staticmethod
    def sch_attrs(schema, kind):
        for c in schema['classes']:
            if c['kind'].upper() == kind.upper():
                return [tuple(a) for a in c['attrs']]
        return []

    def live_all(self):
        return [h for h, r in self.ref.rows.items() if r.alive]

    def live_of(self, kind):
        return self.ref.live(kind)

    def sp(self, name):
        return spell(self.rng, name, self.cfg['spelling'])

    def relid(self, a):
        return a['rel'] if self.rng.random() < 0.6 else 'R%d' % a['rel']

    def emit(self, op, actor):
        op['a'] = actor
        self.ops.append(op)
        try:
            apply_ref(self.ref, op, gen_time=True)
        except (RefError, Skip, KeyError):
            pass

    def plain_attrs(self, kind):
        refs = self.sch.referential(kind)
        return [(n, t) for n, t in self.sch.attrs(kind) if n not in refs]

    def value_for(self, kind, name):
        ty = self.sch.attr_type(kind, name)
        return draw_value(self.rng, ty, self.cfg['p_exotic'])

    # ---- op builders (return an op dict or None)
    def op_new(self, kind=None, mode='plain'):
        rng = self.rng
        if len(self.live_all()) >= self.cfg['max_live']:
            return None
        if mode == 'bad':
            if not self.bad_classes:
                return None
            c = rng.choice(self.bad_classes)
            return {'op': 'new', 'h': self.handle(), 'kind': self.sp(c['kind']), 'args': [], 'kw': [], 'via': 'mm',
                    'fault': 'F1'}
        c = self.sch.cls(kind) if kind else rng.choice(self.good_classes)
        op = {'op': 'new', 'h': None, 'kind': self.sp(c['kind']), 'args': [], 'kw': [],
              'via': rng.choice(['mm', 'mm', 'mc', 'call'])}
        refs = self.sch.referential(c['kind'])
        attrs = self.sch.attrs(c['kind'])
        px = self.cfg['p_exotic']
        def spk(n):
            if not (mode == 'kw' or self.prop in ('C10', 'C19')):
                return n
            sp = self.sp(n)
            # `kind=` / `self=` collide with the parameters of MetaModel.new / MetaClass.new (a known finding, asked
            # for once at the end of some C10 histories): every other spelling here
            return n if sp in ('kind', 'self') else sp
        if mode == 'args':
            # positional arguments up to the first referential attribute, then keywords
            npos = rng.randint(0, len(attrs))
            through = rng.random() < 0.4    # positional values past a referential attribute: its own slot stays unset
            for name, ty in attrs[:npos]:
                if name in refs:
                    if not through:
                        break
                    op['args'].append(None)
                    continue
                op['args'].append(draw_value(rng, ty, px))
            while op['args'] and op['args'][-1] is None and attrs[len(op['args']) - 1][0] in refs:
                op['args'].pop()
            npos = len(op['args'])
            rest = [(n, t) for n, t in attrs[npos:] if n not in refs]
            if rng.random() < 0.25 and npos:
                rest = rest + [attrs[rng.randrange(npos)]]       # keywords are applied last and win
            for name, ty in rest:
                if rng.random() < 0.4:
                    op['kw'].append([spk(name), draw_value(rng, ty, px)])
            rng.shuffle(op['kw'])
        elif mode == 'kw':
            for name, ty in attrs:
                if name not in refs and rng.random() < 0.6:
                    op['kw'].append([spk(name), draw_value(rng, ty, px)])
            if rng.random() < 0.3 and op['kw']:
                # the same attribute twice under two spellings: the later keyword wins
                sp0, _ = rng.choice(op['kw'])
                alt = [x for x in spellings(self.sch.declared(c['kind'], sp0)) if x != sp0 and x not in ('kind', 'self')]
                if alt:
                    op['kw'].append([rng.choice(alt), draw_value(rng, self.sch.attr_type(c['kind'], sp0), px)])
            rng.shuffle(op['kw'])
        elif mode == 'ref':
            cands = [a for a in self.sch.assocs
                     if a['src'].upper() == c['kind'].upper() and not self.sch.reflexive(a)
                     and not a['src_phrase'] and not a['tgt_phrase'] and self.live_of(a['tgt'])]
            if not cands:
                return None
            a = rng.choice(cands)
            i = self.sch.assocs.index(a)
            tgts = [t for t in self.live_of(a['tgt']) if a['src_many'] or not self.ref.partners(i, t, False)]
            if not tgts:
                return None
            t = rng.choice(tgts)
            vals = [self.ref.read_or_none(t, tk) for tk in a['tgt_keys']]
            if any(v is None for v in vals):
                return None
            for sk, v in zip(a['src_keys'], vals):
                op['kw'].append([spk(sk), v])       # C10/C19: any spelling of a referential keyword as well
            for name, ty in attrs:
                if name not in refs and ty.upper() != 'UNIQUE_ID' and rng.random() < 0.3:
                    op['kw'].append([name, draw_value(rng, ty, px)])
            rng.shuffle(op['kw'])
            op['ref'] = True
        else:
            # a few plain values so that rows differ
            for name, ty in attrs:
                if name not in refs and ty.upper() != 'UNIQUE_ID' and rng.random() < 0.4:
                    op['kw'].append([name, draw_value(rng, ty, px)])
        op['h'] = self.handle()
        return op

    def ref_value(self, c, name):
        return None

    def handle(self):
        h = 'h%d' % self.nh
        self.nh += 1
        return h

    def pick_assoc(self, reflexive=None):
        cands = [a for a in self.sch.assocs if reflexive is None or self.sch.reflexive(a) == reflexive]
        return self.rng.choice(cands) if cands else None

    def link_op(self, name, a, s, t):
        '''relate/unrelate op for referring s and referred t in a random argument order with the matching phrase'''
        rng = self.rng
        if self.sch.reflexive(a):
            if rng.random() < 0.5:
                x, y, phrase = t, s, a['tgt_phrase']      # first operand is the referred instance
            else:
                x, y, phrase = s, t, a['src_phrase']
        else:
            phrase = a['src_phrase'] if False else ''
            if rng.random() < 0.5:
                x, y = t, s
                phrase = a['tgt_phrase']
            else:
                x, y = s, t
                phrase = a['src_phrase']
        return {'op': name, 'x': x, 'y': y, 'rel': self.relid(a), 'phrase': phrase}

    def op_relate(self, mode='valid', a=None):
        rng = self.rng
        a = a or self.pick_assoc()
        if a is None:
            return None
        i = self.sch.assocs.index(a)
        srcs, tgts = self.live_of(a['src']), self.live_of(a['tgt'])
        if mode == 'none':
            if not srcs and not tgts:
                return None
            h = rng.choice(srcs + tgts)
            x, y = (None, h) if rng.random() < 0.5 else (h, None)
            return {'op': rng.choice(['relate', 'unrelate']), 'x': x, 'y': y, 'rel': self.relid(a), 'phrase': ''}
        if (not srcs or not tgts) and mode != 'dead':
            return None
        if mode == 'valid':
            cand = []
            for s in srcs:
                if not a['tgt_many'] and self.ref.partners(i, s, True):
                    continue
                for t in tgts:
                    if not a['src_many'] and self.ref.partners(i, t, False):
                        continue
                    if s == t and rng.random() < 0.9:
                        continue
                    cand.append((s, t))
            if not cand:
                return None
            s, t = rng.choice(cand)
            return self.link_op('relate', a, s, t)
        if mode == 'dead':
            # one operand is an instance that has been deleted: whatever the answer, it must not become reachable
            dead_s = [h for h in self.dead if self.ref.kind_of(h).upper() == a['src'].upper()]
            dead_t = [h for h in self.dead if self.ref.kind_of(h).upper() == a['tgt'].upper()]
            cand = [(s, t) for s in dead_s for t in tgts] + [(s, t) for s in srcs for t in dead_t]
            if not cand:
                return None
            s, t = rng.choice(cand)
            op = self.link_op('relate', a, s, t)
            op['dead'] = True
            op['fault'] = 'F1'
            return op
        if mode == 'dup':
            if not self.ref.pairs[i]:
                return None
            s, t = rng.choice(self.ref.pairs[i])
            return self.link_op('relate', a, s, t)
        if mode == 'overflow':
            cand = []
            for (s0, t0) in self.ref.pairs[i]:
                if not a['src_many']:
                    cand += [(s, t0) for s in srcs if s != s0 and (s, t0) not in self.ref.pairs[i]]
                if not a['tgt_many']:
                    cand += [(s0, t) for t in tgts if t != t0 and (s0, t) not in self.ref.pairs[i]]
            if not cand:
                return None
            s, t = rng.choice(cand)
            op = self.link_op('relate', a, s, t)
            op['fault'] = 'F1'
            return op
        if mode == 'unknown':
            s, t = rng.choice(srcs), rng.choice(tgts)
            op = self.link_op(rng.choice(['relate', 'unrelate']), a, s, t)
            r = rng.random()
            if a['src_phrase'] != a['tgt_phrase'] and not self.sch.reflexive(a) and r < 0.5:
                # the phrase is right for the other argument order only
                op['x'], op['y'] = op['y'], op['x']
            elif r < 0.35:
                op['rel'] = 99 if rng.random() < 0.5 else 'R0'
            elif r < 0.7:
                op['phrase'] = rng.choice(['bogus', op['phrase'] + 'x', op['phrase'].upper() or 'x'])
            else:
                # a pair of classes the association does not connect
                others = [h for h in self.live_all()
                          if self.ref.kind_of(h).upper() not in (a['src'].upper(), a['tgt'].upper())]
                if not others:
                    op['rel'] = 77
                else:
                    op['y'] = rng.choice(others)
            op['fault'] = 'F1'
            return op

    def op_unrelate(self, mode='valid', a=None):
        rng = self.rng
        a = a or self.pick_assoc()
        if a is None:
            return None
        i = self.sch.assocs.index(a)
        if mode == 'valid':
            if not self.ref.pairs[i]:
                return None
            s, t = rng.choice(self.ref.pairs[i])
            return self.link_op('unrelate', a, s, t)
        srcs, tgts = self.live_of(a['src']), self.live_of(a['tgt'])
        cand = [(s, t) for s in srcs for t in tgts if (s, t) not in self.ref.pairs[i]]
        if not cand:
            return None
        s, t = rng.choice(cand)
        op = self.link_op('unrelate', a, s, t)
        op['fault'] = 'F1'
        return op

    def op_undo(self):
        '''relate immediately followed by the matching unrelate: must restore the state exactly'''
        op = self.op_relate('valid')
        if op is None:
            return None
        un = dict(op)
        un['op'] = 'unrelate'
        if self.rng.random() < 0.5:
            # undo from the other side
            a = [a for a in self.sch.assocs if a['rel'] == (op['rel'] if isinstance(op['rel'], int) else int(op['rel'][1:]))]
            un['x'], un['y'] = op['y'], op['x']
            for aa in a:
                if op['phrase'] == aa['src_phrase']:
                    un['phrase'] = aa['tgt_phrase']
                elif op['phrase'] == aa['tgt_phrase']:
                    un['phrase'] = aa['src_phrase']
        un['undo'] = True
        return [op, un]

    def op_delete(self, again=False):
        rng = self.rng
        if again:
            if not self.dead:
                return None
            return {'op': 'delete', 'h': rng.choice(self.dead), 'via': rng.choice(['fn', 'mc']), 'fault': 'F1'}
        live = self.live_all()
        if not live:
            return None
        # prefer instances with links: deletion must detach them everywhere
        linked = [h for h in live if any(h in p for pairs in self.ref.pairs for p in pairs)]
        h = rng.choice(linked) if linked and rng.random() < 0.7 else rng.choice(live)
        self.dead.append(h)
        return {'op': 'delete', 'h': h, 'via': rng.choice(['fn', 'mc'])}

    def op_setattr(self, mode='plain'):
        rng = self.rng
        live = self.live_all()
        if not live:
            return None
        h = rng.choice(live)
        kind = self.ref.kind_of(h)
        if mode == 'ref':
            refs = self.sch.referential(kind)
            if not refs:
                return None
            name = rng.choice(refs)
            return {'op': 'set', 'h': h, 'name': self.sp(name), 'v': self.value_for(kind, name), 'fault': 'F1'}
        attrs = self.plain_attrs(kind)
        if mode == 'id':
            ident = self.sch.identifying(kind)
            attrs = [(n, t) for n, t in attrs if n in ident]
        if not attrs:
            return None
        name, ty = rng.choice(attrs)
        if mode == 'id':
            # provoke null and duplicate identifiers
            r = rng.random()
            others = [self.ref.read_or_none(o, name) for o in self.live_of(kind) if o != h]
            if r < 0.3:
                v = refstore.null_of(ty) if rng.random() < 0.7 else None
            elif r < 0.7 and others:
                v = rng.choice(others)
            else:
                v = draw_value(rng, ty, 0)
        else:
            v = draw_value(rng, ty, self.cfg['p_exotic'])
        return {'op': 'set', 'h': h, 'name': self.sp(name), 'v': v}

    def op_getattr(self):
        live = self.live_all()
        if not live:
            return None
        h = self.rng.choice(live)
        kind = self.ref.kind_of(h)
        name, _ = self.rng.choice(self.sch.attrs(kind))
        return {'op': 'get', 'h': h, 'name': self.sp(name)}

    def op_delattr(self, unset=False):
        live = self.live_all()
        if not live:
            return None
        h = self.rng.choice(live)
        kind = self.ref.kind_of(h)
        row = self.ref.row(h)
        attrs = [n for n, _ in self.plain_attrs(kind)]
        if unset:
            attrs = [n for n in attrs if n in row.unset]
        else:
            attrs = [n for n in attrs if n not in row.unset]
        if not attrs:
            return None
        return {'op': 'del', 'h': h, 'name': self.sp(self.rng.choice(attrs))}

    def query_ops(self, kind, only_eq=False):
        rng = self.rng
        attrs = self.sch.attrs(kind)
        refs = self.sch.referential(kind)
        q = []
        n = weighted(rng, [(2, 0), (5, 1), (3, 2), (1, 3)]) if not only_eq else 1
        for _ in range(n):
            f = weighted(rng, [(4, 'eq'), (2, 'dict'), (3, 'lam'), (3, 'order')]) if not only_eq else 'eq'
            if f in ('eq', 'dict'):
                k = weighted(rng, [(5, 1), (2, 2)])
                items = []
                for name, ty in rng.sample(attrs, min(k, len(attrs))):
                    live = self.live_of(kind)
                    if live and rng.random() < 0.75:
                        v = self.ref.read_or_none(rng.choice(live), name)
                    else:
                        v = draw_value(rng, ty, 0)
                    items.append([self.sp(name), v])
                if items and rng.random() < 0.12:
                    # one filter naming an attribute twice, under two spellings: both constraints hold for one value
                    sp0, v0 = rng.choice(items)
                    name = self.sch.declared(kind, sp0)
                    others = [x for x in spellings(name) if x not in [i[0] for i in items]] if name else []
                    if others:
                        ty = self.sch.attr_type(kind, name)
                        items.append([rng.choice(others), v0 if rng.random() < 0.4 else draw_value(rng, ty, 0)])
                q.append([f, items])
            elif f == 'lam':
                name, ty = rng.choice(attrs)
                if name in refs or ty.upper() in ('BOOLEAN',):
                    cmpop = rng.choice(['==', '!='])
                else:
                    cmpop = rng.choice(['==', '!=', '<', '>='])
                live = self.live_of(kind)
                v = self.ref.read_or_none(rng.choice(live), name) if live and rng.random() < 0.6 else draw_value(rng, ty, 0)
                if v is None and cmpop in ('<', '>='):
                    cmpop = '=='
                q.append(['lam', self.sp(name), cmpop, v])
            else:
                cand = [n for n, t in attrs if n not in refs]
                if not cand:
                    continue
                names = rng.sample(cand, min(weighted(rng, [(3, 1), (2, 2)]), len(cand)))
                q.append(['order', [self.sp(n) for n in names], rng.random() < 0.45])
        return q

    def op_select(self, only_eq=False):
        rng = self.rng
        c = rng.choice(self.good_classes)
        op = {'op': 'select', 'kind': self.sp(c['kind']), 'form': rng.choice(['many', 'many', 'one', 'any']),
              'q': self.query_ops(c['kind'], only_eq), 'via': rng.choice(['mm', 'mc'])}
        if op['via'] == 'mc' and op['form'] == 'many' and len(op['q']) == 1 and op['q'][0][0] in ('eq', 'dict') \
                and rng.random() < 0.5:
            op['mcq'] = True        # the same filter through the public MetaClass.query(dict)
        return op

    def nav_steps(self, kind, maxlen):
        '''a valid navigation chain starting at class `kind`: list of [kind, rel, phrase]'''
        rng = self.rng
        chain = []
        cur = kind
        for _ in range(rng.randint(1, maxlen)):
            options = []
            for a in self.sch.assocs:
                if a['src'].upper() == cur.upper():
                    options.append([a['tgt'], a, a['src_phrase']])
                if a['tgt'].upper() == cur.upper():
                    options.append([a['src'], a, a['tgt_phrase']])
            # through an association class: cur -> L -> other
            for a in self.sch.assocs:
                if a['tgt'].upper() != cur.upper():
                    continue
                for b in self.sch.assocs:
                    if b is not a and b['rel'] == a['rel'] and b['src'].upper() == a['src'].upper() \
                            and a['tgt_phrase'] == b['src_phrase'] and b['tgt'].upper() != a['src'].upper():
                        direct = any((x['src'].upper() == cur.upper() and x['tgt'].upper() == b['tgt'].upper()
                                      or x['tgt'].upper() == cur.upper() and x['src'].upper() == b['tgt'].upper())
                                     and x['rel'] == a['rel'] for x in self.sch.assocs)
                        if not direct:
                            options.append([b['tgt'], a, a['tgt_phrase']])
            if not options:
                break
            to, a, phrase = rng.choice(options)
            chain.append([self.sp(to), self.relid(a), phrase])
            cur = to
        return chain, cur

    def op_nav(self, bad=False):
        rng = self.rng
        cands = [c for c in self.good_classes if any(a['src'].upper() == c['kind'].upper() or a['tgt'].upper() == c['kind'].upper()
                                                     for a in self.sch.assocs)]
        if not cands:
            return None
        c = rng.choice(cands)
        chain, end = self.nav_steps(c['kind'], 4)
        if not chain:
            return None
        live = self.live_of(c['kind'])
        sk = weighted(rng, [(1, 'none'), (5, 'inst'), (3, 'set'), (2, 'gen'), (2, 'select'), (1, 'list')])
        if sk in ('inst',) and not live:
            sk = 'none'
        start = {'k': sk}
        if sk == 'inst':
            start['h'] = [rng.choice(live)]
        elif sk in ('set', 'gen', 'list'):
            n = rng.randint(0, min(4, len(live)))
            start['h'] = rng.sample(live, n)
        elif sk == 'select':
            start['kind'] = c['kind']
        op = {'op': 'nav', 'start': start, 'chain': chain, 'form': rng.choice(['many', 'many', 'one', 'any']),
              'syntax': rng.choice(['nav', 'sugar']), 'q': self.query_ops(end) if rng.random() < 0.4 else []}
        if bad:
            j = rng.randrange(len(chain))
            chain[j][1] = 98
            op['fault'] = 'F1'
            if sk == 'none':
                return None
        return op

    def op_subtype(self):
        rng = self.rng
        supers = {}
        for a in self.sch.assocs:
            same = [b for b in self.sch.assocs if b['rel'] == a['rel'] and b['tgt'] == a['tgt']]
            if not a['src_many'] and not self.sch.reflexive(a) and all(not b['src_many'] for b in same) and \
                    not any(b['src_phrase'] or b['tgt_phrase'] for b in same):
                supers.setdefault((a['tgt'], a['rel']), []).append(a)
        if not supers:
            return None
        (kind, rel), _ = rng.choice(sorted(supers.items(), key=lambda kv: (kv[0][0], kv[0][1])))
        live = self.live_of(kind)
        h = rng.choice(live) if live and rng.random() < 0.9 else None
        return {'op': 'subtype', 'h': h, 'rel': rel if rng.random() < 0.5 else 'R%d' % rel}

    def reflexive_one(self, pick=False):
        cands = [a for a in self.sch.assocs if self.sch.reflexive(a) and not a['src_many'] and not a['tgt_many']]
        if not cands:
            return None
        return self.rng.choice(cands) if pick else cands[0]

    def op_sort(self, partial=False):
        rng = self.rng
        a = self.reflexive_one(pick=True)
        if a is None:
            return None
        i = self.sch.assocs.index(a)
        live = self.live_of(a['src'])
        if not live and rng.random() < 0.8:
            return None
        comps = components(self.ref, i, live)
        if partial:
            hs = rng.sample(live, rng.randint(0, len(live)))
        else:
            chains = [c for c in comps if not c['ring']]
            rings = [c for c in comps if c['ring']]
            if rings and (not chains or rng.random() < 0.35):
                hs = list(rng.choice(rings)['members'])
                # the ring is returned starting at the set's first member: rotate / shuffle the set order
            else:
                pick = [c for c in chains if rng.random() < 0.7]
                hs = [h for c in pick for h in c['members']]
            rng.shuffle(hs)
        phrase = rng.choice([a['src_phrase'], a['tgt_phrase']])
        return {'op': 'sort', 'hs': hs, 'rel': self.relid(a), 'phrase': phrase, 'partial': partial,
                'again': None if partial else rng.choice([None, None, 'drop', 'readd', 'rotate'])}

    def op_check(self):
        rng = self.rng
        f = weighted(rng, [(3, 'all'), (2, 'assoc'), (2, 'unique'), (2, 'consistent'), (1, 'subtype')])
        op = {'op': 'check', 'f': f}
        if f == 'assoc':
            if not self.sch.assocs:
                return None
            a = rng.choice(self.sch.assocs)
            op['rel'] = self.relid(a) if rng.random() < 0.9 else 55
        elif f == 'unique':
            op['kind'] = self.sp(rng.choice(self.good_classes)['kind'])
        elif f == 'subtype':
            st = self.op_subtype()
            if st is None:
                return None
            subs = [a for a in self.sch.assocs if 'R%d' % a['rel'] == ('R%d' % st['rel'] if isinstance(st['rel'], int) else st['rel'])]
            op['kind'] = subs[0]['tgt']
            op['rel'] = st['rel']
        return op

    def op_add_attr(self):
        '''the attribute list of a metaclass is public API: append or insert an attribute in mid-history'''
        rng = self.rng
        c = rng.choice(self.good_classes)
        self.nattr = getattr(self, 'nattr', 0) + 1
        ty = rng.choice(['integer', 'string', 'UNIQUE_ID', 'Boolean', 'real', 'unique_id'])
        idx = None if rng.random() < 0.4 else rng.randint(0, len(c['attrs']))
        return {'op': 'add_attr', 'kind': self.sp(c['kind']), 'name': 'X%d' % self.nattr, 'type': ty, 'index': idx}

    def op_swap_attr(self):
        '''
        A plain attribute of a (usually populated) class is deleted from the metaclass and, most of the time, another
        one is inserted in the same step, so that the number of attributes stays what it was.
        '''
        rng = self.rng
        cands = []
        for c in self.good_classes:
            ident = self.sch.identifying(c['kind'])
            for n, _ in self.plain_attrs(c['kind']):
                if n not in ident and n not in ('Kind', 'Self'):
                    cands.append((c, n))
        if not cands:
            return None
        c, drop = rng.choice(cands)
        op = {'op': 'swap_attr', 'kind': self.sp(c['kind']), 'drop': drop, 'name': None, 'type': None, 'index': None}
        if rng.random() < 0.85:
            self.nattr = getattr(self, 'nattr', 0) + 1
            op['name'] = rng.choice(['X%d', 'x%d', 'Label%d', '_y%d']) % self.nattr
            op['type'] = rng.choice(['integer', 'string', 'UNIQUE_ID', 'Boolean', 'real', 'unique_id', 'STRING'])
            op['index'] = None if rng.random() < 0.4 else rng.randint(0, len(c['attrs']) - 1)
        if self.prop == 'C01' and op['name'] is not None:
            # an instance without a value for a declared attribute cannot be written at all: give every live
            # instance of the class a value for the new attribute in the steps that follow
            ops = [op]
            for h in self.live_of(c['kind']):
                ops.append({'op': 'set', 'h': h, 'name': self.sp(op['name']),
                            'v': draw_value(rng, op['type'], self.cfg['p_exotic'])})
            return ops
        return op

    def op_grow(self):
        '''
        The schema grows in mid-history: two more classes, an association between them and their identifiers are
        defined on the metamodel that is already populated (and has been queried and checked).
        '''
        rng = self.rng
        if getattr(self, 'ngrow', 0) >= 2:
            return None
        self.ngrow = getattr(self, 'ngrow', 0) + 1
        idt = rng.choice(['unique_id', 'integer', 'string', 'UNIQUE_ID', 'Integer'])
        ka, kb = 'G%da' % self.ngrow, rng.choice(['G%db', 'Gx%db']) % self.ngrow
        rel = max([a['rel'] for a in self.sch.assocs] + [0]) + rng.choice([1, 1, 7])
        many = rng.random() < 0.5
        classes = [{'kind': ka, 'attrs': [['Id', idt], ['Val', 'integer']]},
                   {'kind': kb, 'attrs': [['Id', idt], ['A_Id', idt], ['Tag', 'string']]}]
        assoc = {'rel': rel, 'src': kb, 'src_keys': ['A_Id'], 'src_many': many, 'src_cond': rng.random() < 0.5,
                 'src_phrase': '', 'tgt': ka, 'tgt_keys': ['Id'], 'tgt_many': False, 'tgt_cond': rng.random() < 0.5,
                 'tgt_phrase': ''}
        uniques = [{'kind': ka, 'name': 'I1', 'attrs': ['Id']}]
        if rng.random() < 0.7:
            uniques.append({'kind': kb, 'name': 'I1', 'attrs': ['Id']})
        return {'op': 'grow', 'classes': classes, 'assoc': assoc, 'uniques': uniques}

    def op_reseed(self):
        return {'op': 'reseed', 'k': self.rng.choice([0, 1, 1, 42])}

    def op_swap_idgen(self):
        '''the id generator is a public attribute of the metamodel: replace it in mid-history'''
        self.nswap = getattr(self, 'nswap', 0) + 1
        return {'op': 'swap_idgen', 'kind': self.rng.choice(['integer', 'user', 'iter', 'user_next']), 'n': self.nswap}

    def op_idgen(self):
        f = weighted(self.rng, [(4, 'peek'), (2, 'next'), (2, 'builtin_next'), (1, 'peek2')])
        return {'op': 'idgen', 'f': f}

    def op_hold(self):
        op = self.op_select() if self.rng.random() < 0.5 else self.op_nav()
        if op is None or op['form'] != 'many':
            return None
        op['hold'] = 'r%d' % self.holds
        self.holds += 1
        return op

    def op_recheck(self):
        if not self.holds:
            return None
        return {'op': 'recheck', 'slot': 'r%d' % self.rng.randrange(self.holds)}

    def op_define_again(self):
        '''a class name is taken whatever its letter case: a second definition must be rejected'''
        c = self.rng.choice(self.good_classes)
        return {'op': 'define_again', 'kind': self.rng.choice(spellings(c['kind'])), 'fault': 'F1'}

    def op_find_class(self):
        c = self.rng.choice(self.good_classes)
        return {'op': 'find_class', 'kind': self.sp(c['kind'])}

    # ---- main loop
    def run(self):
        rng = self.rng
        sched = self.st['sched']
        w = self.cfg['weights']
        table = [(v, k) for k, v in sorted(w.items())]
        refl = self.reflexive_one()
        # warm-up: a few instances so that the history is not spent on an empty model
        for _ in range(rng.randint(1, 4)):
            op = self.op_new(refl['src'] if (refl and self.prop == 'C16') else None)
            if op:
                self.emit(op, 0)
        steps = self.cfg['steps']
        while len(self.ops) < steps:
            actor = sched.randrange(self.cfg['clients'])
            k = weighted(rng, table)
            op = None
            if k == 'new':
                op = self.op_new()
            elif k == 'new_n':
                op = self.op_new(refl['src']) if refl else None
            elif k == 'new_args':
                op = self.op_new(mode='args')
            elif k == 'new_kw':
                op = self.op_new(mode='kw')
            elif k == 'new_ref':
                op = self.op_new(mode='ref')
            elif k == 'new_bad':
                op = self.op_new(mode='bad')
            elif k == 'relate':
                op = self.op_relate('valid')
            elif k == 'relate_dead':
                op = self.op_relate('dead')
            elif k == 'relate_n':
                op = self.op_relate('valid', self.reflexive_one(pick=True)) if refl else None
            elif k == 'relate_dup':
                op = self.op_relate('dup')
            elif k == 'relate_overflow':
                op = self.op_relate('overflow', refl if (refl and self.prop == 'C16') else None)
            elif k == 'relate_unknown':
                op = self.op_relate('unknown')
            elif k == 'relate_none':
                op = self.op_relate('none')
            elif k == 'unrelate':
                op = self.op_unrelate('valid')
            elif k == 'unrelate_n':
                op = self.op_unrelate('valid', self.reflexive_one(pick=True)) if refl else None
            elif k == 'unrelate_unlinked':
                op = self.op_unrelate('unlinked')
            elif k == 'undo':
                op = self.op_undo()
            elif k == 'delete':
                op = self.op_delete()
            elif k == 'delete_again':
                op = self.op_delete(again=True)
            elif k == 'setattr':
                op = self.op_setattr()
            elif k == 'setattr_id':
                op = self.op_setattr('id')
            elif k == 'set_ref':
                op = self.op_setattr('ref')
            elif k == 'getattr':
                op = self.op_getattr()
            elif k == 'delattr':
                op = self.op_delattr()
            elif k == 'del_unset':
                op = self.op_delattr(unset=True)
            elif k == 'select':
                op = self.op_select()
            elif k == 'select_eq':
                op = self.op_select(only_eq=True)
            elif k == 'nav':
                op = self.op_nav()
            elif k == 'nav_bad':
                op = self.op_nav(bad=True)
            elif k == 'subtype':
                op = self.op_subtype()
            elif k == 'sort':
                op = self.op_sort()
            elif k == 'sort_partial':
                op = self.op_sort(partial=True)
            elif k == 'check':
                op = self.op_check()
            elif k == 'idgen':
                op = self.op_idgen()
            elif k == 'swap_idgen':
                op = self.op_swap_idgen()
            elif k == 'add_attr':
                op = self.op_add_attr()
            elif k == 'swap_attr':
                op = self.op_swap_attr()
            elif k == 'reseed':
                op = self.op_reseed()
            elif k == 'grow':
                op = self.op_grow()
                if op:
                    self.emit(op, actor)
                    self.good_classes = [c for c in self.sch.classes if not c.get('bad')]
                    op = None
                    steps += 0.2
            elif k == 'hold':
                op = self.op_hold()
            elif k == 'recheck':
                op = self.op_recheck()
            elif k == 'find_class':
                op = self.op_find_class()
            elif k == 'define_again':
                op = self.op_define_again()
            elif k in getattr(self, '_extra', {}):
                op = self._extra[k]()
            if op is None:
                steps -= 0.2        # do not spin forever on an unproductive table
                continue
            for o in (op if isinstance(op, list) else [op]):
                self.emit(o, actor)
        if self.prop == 'C16' and rng.random() < 0.04:
            self.emit({'op': 'sort_long', 'n': rng.choice([1100, 1500, 2500]), 'ring': rng.random() < 0.3,
                       'seed': rng.getrandbits(32)}, 0)
        if self.prop == 'C10' and rng.random() < 0.3:
            # the last word of some histories: a keyword spelled exactly like a parameter of the constructor
            cand = [(c, n) for c in self.good_classes for n, _ in self.plain_attrs(c['kind']) if n in ('Kind', 'Self')]
            if cand and len(self.live_all()) < self.cfg['max_live']:
                c, n = rng.choice(cand)
                self.emit({'op': 'new', 'h': self.handle(), 'kind': c['kind'], 'args': [], 'collide': True,
                           'kw': [[n.lower(), self.value_for(c['kind'], n)]], 'via': 'mm' if n == 'Kind' else 'mc'}, 0)
        if self.prop == 'C02' and self.dead and rng.random() < 0.3:
            # the last word of some histories: a relate that names a deleted instance (last, because the answer of
            # the implementation is a known finding and a run ends at its first violation)
            op = self.op_relate('dead')
            if op:
                self.emit(op, 0)
        return {'prop': self.prop, 'engine': 'store', 'seed': self.seed, 'cfg': self.cfg, 'ops': self.ops}


def init_preload(ref, schema, rows):
    from engines import sqlgen
    pairs = sqlgen.expected_pairs(schema, rows)
    refstore.preload(ref, rows, pairs)
    if hasattr(ref.idgen, 'skip'):
        ref.idgen.skip(preload_draws(schema, rows))


class _FakeXtuml(object):
    '''make_idgen needs the xtuml module only for the real half; generation uses the reference half.'''
    class IdGenerator(object):
        def __init__(self):
            pass

    @staticmethod
    def IntegerGenerator():
        return None

    @staticmethod
    def UUIDGenerator():
        return None


def diff_obs(a, b):
    for x_, y_ in zip(a, b):
        if x_ != y_:
            return 'before %r, after %r' % (x_, y_)
    return 'before %d observations, after %d' % (len(a), len(b))


def components(ref, i, members):
    '''
    Chains and rings formed by the reflexive 1:1 association i among `members`
    (whole components are returned even if they reach outside `members`).
    A pair (s, t): s refers to t.  Returns dicts {members:[...], ring:bool}.
    '''
    seen = set()
    out = []
    for h in members:
        if h in seen:
            continue
        comp = [h]
        seen.add(h)
        frontier = [h]
        while frontier:
            x = frontier.pop()
            for s, t in ref.pairs[i]:
                for y in ((t,) if s == x else ()) + ((s,) if t == x else ()):
                    if y not in seen:
                        seen.add(y)
                        comp.append(y)
                        frontier.append(y)
        edges = [(s, t) for s, t in ref.pairs[i] if s in comp]
        ring = len(edges) == len(comp)
        out.append({'members': comp, 'ring': ring})
    return out


# ----------------------------------------------------------------------------
# reference side of an op
# ----------------------------------------------------------------------------
def eval_query(ref, kind, handles, q):
    sch = ref.schema
    seq = list(handles)

    def read(h, spelling):
        name = sch.declared(kind, spelling)
        if name is None:
            raise Skip('unknown attribute')
        if name in sch.referential(kind):
            c = ref.ref_candidates(h, name)
            if len(set(map(repr, c))) > 1:
                raise Skip('ambiguous referential value')
            return c[0]
        try:
            return ref.getattr(h, name)
        except RefError:
            raise Skip('unset attribute in query')

    for item in q:
        f = item[0]
        if f in ('eq', 'dict'):
            seq = [h for h in seq if all(not (read(h, sp) != v) for sp, v in item[1])]
        elif f == 'lam':
            _, sp, cmpop, v = item
            out = []
            for h in seq:
                x = read(h, sp)
                if cmpop in ('<', '>=') and (x is None or v is None):
                    raise Skip('ordering comparison with None')
                if {'==': x == v, '!=': x != v, '<': cmpop == '<' and x < v, '>=': cmpop == '>=' and x >= v}[cmpop]:
                    out.append(h)
            seq = out
        elif f == 'order':
            _, names, rev = item
            keys = {}
            for h in seq:
                keys[h] = [read(h, n) for n in names]
                if any(k is None for k in keys[h]):
                    raise Skip('ordering by None')
            seq = sorted(seq, key=lambda h: keys[h], reverse=rev)
    return seq


def apply_ref(ref, op, gen_time=False, world=None):
    '''
    Apply `op` to the reference.  Returns the expected outcome in canonical
    form; raises RefError for a documented rejection and Skip when the op is
    not applicable.  `world` carries execution-time extras (holds).
    '''
    k = op['op']
    sch = ref.schema

    def need(h, alive=True):
        if h is None:
            return None
        if h not in ref.rows:
            raise Skip('unknown handle')
        if alive and not ref.rows[h].alive:
            raise Skip('dead handle')
        return h

    if k == 'new':
        if op['h'] in ref.rows:
            raise Skip('duplicate handle')
        try:
            c = sch.cls(op['kind'])
        except KeyError:
            raise Skip('unknown class')
        if c.get('bad'):
            # the half-initialised instance stays in the pool (not part of any statement): the class is never
            # observed; ids drawn for the attributes before the unknown type are consumed (resynchronised in do())
            ref.new(c['kind'], op['h'], op['args'], op['kw'])
            raise AssertionError('reference accepted an unknown type')
        refs = sch.referential(c['kind'])
        given = [sch.declared(c['kind'], sp) for sp, _ in op['kw']]
        given += [n for (n, _), _v in zip(sch.attrs(c['kind']), op['args']) if not (n in refs and _v is None)]
        given_refs = [n for n in given if n in refs]
        if given_refs:
            # referential arguments: only where the statements define the outcome (see DESIGN.md C02/C03)
            if any(n in sch.identifying(c['kind']) for n in given_refs):
                raise Skip('referential argument that is also an identifying attribute')
            for a in sch.assocs:
                if a['src'].upper() == c['kind'].upper() and set(a['src_keys']) & set(given_refs) and \
                        (sch.reflexive(a) or a['src_phrase'] or a['tgt_phrase']):
                    raise Skip('referential argument across a phrased association')
            import copy
            trial = copy.deepcopy(ref)
            try:
                trial.new(c['kind'], op['h'], op['args'], op['kw'])
            except RefError:
                raise Skip('referential argument would overflow a single-valued end')
        return ('new', ref.new(c['kind'], op['h'], op['args'], op['kw']))
    if k == 'relate' and op.get('dead'):
        need(op['x'], alive=False), need(op['y'], alive=False)
        if ref.rows[op['x']].alive and ref.rows[op['y']].alive:
            raise Skip('both operands alive')
        raise RefError('MetaException', 'relate with a deleted instance')
    if k in ('relate', 'unrelate'):
        x, y = need(op['x']), need(op['y'])
        f = ref.relate if k == 'relate' else ref.unrelate
        n0 = sum(len(p) for p in ref.pairs)
        r = f(x, y, op['rel'], op['phrase'])
        return ('ret', r, n0 == sum(len(p) for p in ref.pairs))
    if k == 'delete':
        h = need(op['h'], alive=False)
        nlinks = sum(1 for pairs in ref.pairs for p in pairs if h in p)
        ref.delete(h)
        return ('ret', None, nlinks)
    if k == 'set':
        h = need(op['h'])
        ref.setattr(h, op['name'], op['v'])
        return ('ret', None)
    if k == 'get':
        h = need(op['h'])
        kind = ref.kind_of(h)
        if ref.is_referential(kind, op['name']):
            return ('oneof', ref.ref_candidates(h, sch.declared(kind, op['name'])))
        return ('ret', ref.getattr(h, op['name']))
    if k == 'del':
        h = need(op['h'])
        if not ref.delattr(h, op['name']):
            return ('any', None)     # deleting an unset attribute: outcome not fixed, other values must survive
        return ('ret', None)
    if k == 'select':
        try:
            c = sch.cls(op['kind'])
        except KeyError:
            raise Skip('unknown class')
        seq = eval_query(ref, c['kind'], ref.live(c['kind']), op['q'])
        if op['form'] == 'many':
            return ('seq', seq)
        return ('inst', seq[0] if seq else None)
    if k == 'nav':
        st = op['start']
        if st['k'] == 'none':
            hs = []
        elif st['k'] == 'select':
            hs = ref.live(st['kind'])
        else:
            hs = [need(h) for h in st['h']]
        kind = None
        for to, rel, phrase in op['chain']:
            hs = ref.hop(hs, to, rel, phrase)
            kind = to
        hs = RefStore.dedup(hs) if False else hs
        # filters run over the (possibly duplicate-carrying) stream; de-duplication happens when the set is built
        if op['q']:
            hs = eval_query(ref, sch.cls(kind)['kind'], hs, op['q'])
        if op['form'] == 'many':
            return ('seq', RefStore.dedup(hs))
        return ('inst', hs[0] if hs else None)
    if k == 'subtype':
        h = need(op['h'])
        if h is None:
            return ('inst', None)
        rel = op['rel'] if not isinstance(op['rel'], int) else 'R%d' % op['rel']
        found = []
        for i, a in enumerate(sch.assocs):
            if 'R%d' % a['rel'] == rel and a['tgt'].upper() == ref.kind_of(h).upper():
                found += ref.partners(i, h, False)
        if len(found) > 1:
            return ('oneof_inst', found)
        return ('inst', found[0] if found else None)
    if k == 'sort':
        return ('sort', None)
    if k == 'sort_long':
        return ('sort', None)
    if k == 'check':
        return ('check', None)
    if k == 'idgen':
        g = ref.idgen
        if op['f'] in ('peek', 'peek2'):
            if not hasattr(g, 'peek') or (world is not None and not world.get('has_peek', True)):
                raise Skip('generator without peek')
            return ('ret', g.peek())
        return ('ret', g.next())
    if k == 'swap_idgen':
        _, ref.idgen = make_idgen(_FakeXtuml, op['kind'], 0)
        return ('swap', None)
    if k == 'reseed':
        return ('swap', None)
    if k == 'grow':
        import copy as _copy
        for c in op['classes']:
            if c['kind'].upper() in sch.by_kind:
                raise Skip('class exists')
        if any(a['rel'] == op['assoc']['rel'] for a in sch.assocs):
            raise Skip('association exists')
        for c in op['classes']:
            c = _copy.deepcopy(c)
            sch.classes.append(c)
            sch.by_kind[c['kind'].upper()] = c
            ref.pool[c['kind'].upper()] = []
        sch.assocs.append(_copy.deepcopy(op['assoc']))
        ref.pairs.append([])
        for u in op['uniques']:
            sch.uniques.append(_copy.deepcopy(u))
        return ('swap', None)
    if k == 'swap_attr':
        try:
            c = sch.cls(op['kind'])
        except KeyError:
            raise Skip('unknown class')
        drop = sch.declared(c['kind'], op['drop'])
        if c.get('bad') or drop is None or drop in sch.referential(c['kind']) or drop in sch.identifying(c['kind']):
            raise Skip('attribute cannot be dropped')
        if op['name'] is not None and sch.declared(c['kind'], op['name']) is not None:
            raise Skip('attribute exists')
        c['attrs'][:] = [a for a in c['attrs'] if a[0] != drop]
        for row in ref.rows.values():
            if row.kind.upper() == c['kind'].upper():
                row.values.pop(drop, None)
                row.unset.discard(drop)
        if op['name'] is not None:
            idx = op['index']
            if idx is None or idx > len(c['attrs']):
                c['attrs'].append([op['name'], op['type']])
            else:
                c['attrs'].insert(idx, [op['name'], op['type']])
            for h in ref.live(c['kind']):
                ref.rows[h].unset.add(op['name'])
        return ('swap', None)
    if k == 'add_attr':
        try:
            c = sch.cls(op['kind'])
        except KeyError:
            raise Skip('unknown class')
        if c.get('bad') or sch.declared(c['kind'], op['name']) is not None:
            raise Skip('attribute exists')
        idx = op['index']
        if idx is None or idx > len(c['attrs']):
            c['attrs'].append([op['name'], op['type']])
        else:
            c['attrs'].insert(idx, [op['name'], op['type']])
        # instances that exist already do not have the attribute
        for h in ref.live(c['kind']):
            ref.rows[h].unset.add(op['name'])
        return ('swap', None)
    if k == 'recheck':
        return ('recheck', None)
    if k == 'find_class':
        try:
            return ('ret', sch.cls(op['kind'])['kind'])
        except KeyError:
            raise Skip('unknown class')
    if k == 'define_again':
        try:
            sch.cls(op['kind'])
        except KeyError:
            raise Skip('unknown class')
        raise RefError('MetaModelException', 'class already defined')
    if k in ('checkpoint', 'restart'):
        return ('disk', None)
    raise ValueError('unknown op %r' % k)


# ----------------------------------------------------------------------------
# execution
# ----------------------------------------------------------------------------
class World(object):
    '''The real model plus the handle maps.'''
    def __init__(self, xtuml, cfg, seed):
        import copy
        self.x = xtuml
        self.cfg = cfg
        self.schema = Schema(copy.deepcopy(cfg['schema']))
        self.real_gen, self.ref_gen = make_idgen(xtuml, cfg['idgen'], seed)
        self.m = build_model(xtuml, cfg['schema'], cfg['route'], self.real_gen, cfg.get('preload'))
        self.gen = self.m.id_generator
        self.h2i = {}
        self.i2h = {}
        self.zombies = set()
        if cfg.get('preload'):
            by_kind = {}
            for r in cfg['preload']:
                by_kind.setdefault(r['kind'].upper(), []).append(r)
            for ukind, rs in by_kind.items():
                insts = list(self.m.select_many(rs[0]['kind']))
                if len(insts) != len(rs):
                    raise Violation('pool', 'loading %d rows of %s created %d instances' % (len(rs), ukind, len(insts)), 'pool:preload')
                for r, inst in zip(rs, insts):
                    self.bind('p%d' % r['row'], inst)

    def bind(self, h, inst):
        self.h2i[h] = inst
        self.i2h[id(inst)] = h

    def label(self, inst):
        if inst is None:
            return None
        h = self.i2h.get(id(inst))
        if h is None or self.h2i[h] is not inst:
            return 'foreign:%s' % type(inst).__name__
        return h

    def labels(self, seq):
        return [self.label(i) for i in seq]


EXC = ('RelateException', 'UnrelateException', 'UnknownLinkException', 'DeleteException', 'MetaException',
       'UnknownClassException', 'MetaModelException')


class StoreEngine(Engine):
    name = 'store'
    props = PROPS
    WALL_S = 8.0

    def setup(self, prop, tier):
        import xtuml
        self.x = xtuml
        seams.install_entropy()
        self.meter = Meter([build.scratch_dir()])

    def plan(self, prop, tier):
        if tier == 'quick':
            return {'runs': 10000 if prop == 'C10' else 16000, 'chunk': 100, 'wall_cap': 200, 'determinism_runs': 60}
        return {'runs': 400000, 'chunk': 500, 'wall_cap': 2400, 'determinism_runs': 1000}

    def describe(self, prop):
        return {
            'level': 'exploration',
            'rule': ('seeded histories of 20-80 (thorough: up to 250) API calls issued by 1-3 interleaved clients on one '
                     'real MetaModel whose schema is drawn per run from the association shapes of the quantifier '
                     '(1:1, 1:M, conditional/unconditional, reflexive with phrases, association class, subtype/supertype, '
                     'shared referential attribute, multi-attribute and chained keys), built through the API or from text, '
                     'with uuid (owned entropy), integer or user id generators; deliberately rejected calls (F1) injected '
                     'after the state that makes them illegal. After every step the full observable state is compared with '
                     'the relational reference model. A state is the canonical reference state (rows, values, link pairs) '
                     'after a step; it is non-trivial when it holds at least one link or, for C10/C19, at least two '
                     'instances. distinct_nontrivial counts distinct non-trivial states over the batch.'),
            'components': {
                'real': ['xtuml.meta (MetaModel, MetaClass, Class, Link, Association, relate, unrelate, delete, navigate_*, '
                         'where_eq, order_by, sort_reflexive)', 'xtuml.tools (IdGenerator family, OrderedSet)',
                         'xtuml.load (text route of the schema)', 'xtuml.persist.serialize_*', 'xtuml.consistency_check'],
                'stub': ['uuid.uuid4 behind xtuml.tools (seeded entropy)'],
                'oracle': ['RefStore: rows as dicts, links as lists of (referring, referred) pairs'],
            },
            'assumptions': [
                'pre-emption granularity is the API call; pyxtuml has no threads or locks',
                'the order of a single-hop navigation result from one instance is not fixed by any statement: it is compared as a set and then adopted',
                'a referential attribute shared by several associations may read as the identifying value of any linked instance',
                'operations on handles of deleted instances other than the repeated delete are not generated (undefined by the API)',
            ],
        }

    def generate(self, prop, seed, tier, idx):
        return Gen(prop, seed, tier).run()

    # ------------------------------------------------------------------ execute
    def execute(self, case):
        if case['cfg'].get('shadow'):
            # a second metamodel in the same process with the same class names but attributes declared in
            # another letter case lives through the same history first: metamodels must not share spelling state
            sh = self.shadow_case(case)
            r0 = Exec(self, sh).run()
            if r0['violation']:
                r0['violation']['detail'] = '[shadow metamodel] ' + r0['violation']['detail']
                return r0
            r1 = Exec(self, case).run()
            r1['digest'] = r0['digest'][:32] + r1['digest'][:32]
            r1['probes']['shadow_world'] = 1
            return r1
        return Exec(self, case).run()

    @staticmethod
    def shadow_case(case):
        import copy
        sh = copy.deepcopy(case)
        sh['cfg']['shadow'] = False
        schema = sh['cfg']['schema']
        mode = case['cfg']['shadow']

        def flip(n):
            return {'upper': n.upper(), 'lower': n.lower(), 'swap': n.swapcase()}[mode]
        for c in schema['classes']:
            for a in c['attrs']:
                a[0] = flip(a[0])
        for a in schema['assocs']:
            a['src_keys'] = [flip(n) for n in a['src_keys']]
            a['tgt_keys'] = [flip(n) for n in a['tgt_keys']]
            a.pop('src_keys_as', None)
            a.pop('tgt_keys_as', None)
        for u in schema['uniques']:
            u['attrs'] = [flip(n) for n in u['attrs']]
            u.pop('attrs_as', None)
        return sh

    def reach_missing(self, prop, tier, probes, faults):
        need = {
            'C02': ['F1_relate_overflow', 'F1_unrelate_unlinked', 'F1_unknown_link', 'F1_delete_again',
                    'delete_with_2_links', 'relate_noop', 'undo_checked', 'undo_exact', 'reflexive_relate',
                    'assoc_class_relate'],
            'C09': ['nav_two_hop', 'nav_reflexive', 'nav_len3', 'order_with_ties', 'select_one_none', 'held_rechecked',
                    'nav_from_set', 'subtype_found'],
            'C10': ['write_then_read_other_spelling', 'F1_set_referential', 'where_eq_spelling', 'delattr', 'shadow_world',
                    'attribute_swapped'],
            'C11': ['check_nonzero_assoc', 'check_nonzero_unique', 'check_zero', 'check_consistent_true',
                    'check_consistent_false', 'schema_grown'],
            'C16': ['sort_chain_ge3', 'sort_ring_ge2', 'sort_multi_chain', 'sort_empty', 'sort_partial'],
            'C19': ['new_positional', 'new_keyword', 'F1_unknown_type', 'idgen_peek', 'defaulted_ids', 'idgen_swapped',
                    'attribute_added'],
        }[prop]
        return [k for k in need if not probes.get(k) and not faults.get(k)]


class Exec(object):
    def __init__(self, engine, case):
        self.e = engine
        self.x = engine.x
        self.case = case
        self.prop = case['prop']
        self.cfg = case['cfg']
        self.log = Log()
        self.faults = {}
        self.probes = {}
        self.states = set()
        self.step = -1
        self.holds = {}

    def bump(self, d, k, n=1):
        d[k] = d.get(k, 0) + n

    # ---- canonical forms
    def cv(self, v):
        if isinstance(v, float):
            return 'f:%r' % v
        if isinstance(v, bool):
            return 'b:%r' % v
        if isinstance(v, int):
            return 'i:%d' % v
        if isinstance(v, str):
            return 's:%s' % v
        if v is None:
            return None
        return 'o:%s' % type(v).__name__

    def same(self, a, b):
        return self.cv(a) == self.cv(b)

    # ---- run
    def run(self):
        case = self.case
        guard = WallGuard()
        guard.arm(self.cfg.get('wall_s', self.e.WALL_S))
        violation = None
        lines = 0
        import random as _random
        prng_state = _random.getstate()
        seams.LAST_TAPE[0] = None
        try:
            self.w = World(self.x, self.cfg, case['seed'])
            self.ref = RefStore(self.w.schema, self.w.ref_gen)
            if self.cfg.get('preload'):
                init_preload(self.ref, self.cfg['schema'], self.cfg['preload'])
                self.bump(self.probes, 'preloaded')
                if any(len(self.ref.partners(i, h, False)) > 1 and not a['src_many']
                       for i, a in enumerate(self.ref.schema.assocs) for h in self.ref.live(a['tgt'])):
                    self.bump(self.probes, 'preloaded_overpopulated_end')
            self.extra = {'has_peek': callable(getattr(self.w.gen, 'peek', None))}
            self.compare_state('initial')
            for self.step, op in enumerate(case['ops']):
                self.do(op)
        except Violation as v:
            violation = v.as_dict(self.step)
        except SimStall as s:
            op = case['ops'][self.step] if 0 <= self.step < len(case['ops']) else None
            violation = Violation('stall', 'operation %r did not return: %s' % (op, s),
                                  'stall:%s' % (op or {}).get('op')).as_dict(self.step)
        except Exception as ex:
            import traceback
            tb = traceback.extract_tb(ex.__traceback__)
            inside = [f for f in tb if '/xtuml/' in f.filename or '/bridgepoint/' in f.filename]
            if not inside:
                raise
            where = '%s:%d' % (inside[-1].filename.rsplit('/', 1)[-1], inside[-1].lineno)
            op = case['ops'][self.step] if 0 <= self.step < len(case['ops']) else None
            violation = Violation('exception', 'unexpected %s: %s at %s during %r' % (type(ex).__name__, ex, where, op),
                                  'exception:%s:%s' % (type(ex).__name__, (op or {}).get('op'))).as_dict(self.step)
        finally:
            guard.disarm()
            lines = self.e.meter.total
            self.e.meter.total = 0
            _random.setstate(prng_state)
        if seams.LAST_TAPE[0] is not None:
            self.bump(self.probes, 'uuid_entropy_not_through_seam')
        if violation:
            self.log.event('violation', violation['oracle'], self.step)
        return {'violation': violation, 'digest': self.log.hexdigest(), 'steps': self.step + 1,
                'faults': self.faults, 'probes': self.probes, 'states': self.states,
                'nontrivial': bool(self.states), 'lines': lines}

    # ---- one step
    def do(self, op):
        ref, w = self.ref, self.w
        k = op['op']
        # reference first (on a dry copy of nothing: RefStore ops are atomic by construction)
        before_text = None
        try:
            exp = apply_ref(ref, op, world=self.extra)
            exp_exc = None
        except Skip:
            self.log.event(self.step, 'skip', k)
            return
        except RefError as e:
            exp, exp_exc = None, e.cls
        if exp_exc is not None and k != 'new':
            before_text = self.observe()
        nxt = self.case['ops'][self.step + 1] if self.step + 1 < len(self.case['ops']) else None
        if k == 'relate' and exp_exc is None and nxt is not None and nxt.get('undo') and exp[1] and not exp[2]:
            # a relate that really adds a link, followed by its matching unrelate: remember the exact state
            self.undo_snapshot = (self.step + 1, self.observe())

        # real
        try:
            act = self.real(op, exp)
            act_exc = None
        except Exception as ex:
            act, act_exc = None, ex
        # outcome comparison
        if exp_exc is not None:
            self.note_fault(op, exp_exc)
            if act_exc is None:
                raise Violation('outcome', 'step %d %r: expected %s, the call returned %r'
                                % (self.step, op, exp_exc, act), 'outcome:%s:no-%s' % (k, exp_exc))
            cls = getattr(self.x, exp_exc, None) if exp_exc in EXC else {'AttributeError': AttributeError}.get(exp_exc)
            if cls is None or not isinstance(act_exc, cls):
                raise Violation('outcome', 'step %d %r: expected %s, got %s: %s'
                                % (self.step, op, exp_exc, type(act_exc).__name__, act_exc),
                                'outcome:%s:%s-not-%s' % (k, type(act_exc).__name__, exp_exc))
            if k == 'new':
                self.w.zombies.add(op['kind'].upper())
                self.resync_idgen()
        else:
            if act_exc is not None:
                if isinstance(act_exc, Skip):
                    self.log.event(self.step, 'skip', k)
                    return
                if isinstance(act_exc, Violation):
                    raise act_exc
                if exp[0] == 'any':
                    pass
                elif op.get('collide') and isinstance(act_exc, TypeError):
                    raise Violation('outcome', 'step %d %r: the keyword is taken for a parameter of the constructor: %s'
                                    % (self.step, op, act_exc), 'outcome:new:keyword-collides-with-parameter')
                else:
                    import traceback
                    tb = traceback.extract_tb(act_exc.__traceback__)
                    inside = [f for f in tb if '/xtuml/' in f.filename]
                    where = '%s:%d' % (inside[-1].filename.rsplit('/', 1)[-1], inside[-1].lineno) if inside else '?'
                    raise Violation('outcome', 'step %d %r: unexpected %s: %s (at %s)'
                                    % (self.step, op, type(act_exc).__name__, act_exc, where),
                                    'outcome:%s:unexpected-%s' % (k, type(act_exc).__name__))
            else:
                self.check_outcome(op, exp, act)
        # state comparison after every step
        self.compare_state('%s (step %d)' % (k, self.step))
        if before_text is not None:
            after = self.observe()
            if after != before_text:
                raise Violation('atomic', 'step %d: rejected call %r changed the model: %s'
                                % (self.step, op, diff_obs(before_text, after)), 'atomic:%s' % k)
        snap = getattr(self, 'undo_snapshot', None)
        if snap is not None and snap[0] == self.step:
            self.undo_snapshot = None
            if k == 'unrelate' and exp_exc is None:
                after = self.observe()
                if after != snap[1]:
                    raise Violation('undo', 'step %d: unrelate %r after the matching relate did not restore the model: %s'
                                    % (self.step, op, diff_obs(snap[1], after)), 'undo')
                self.bump(self.probes, 'undo_exact')
        self.log.event(self.step, op.get('a'), k, exp_exc or self.render_outcome(exp, act))
        self.record_state()

    def resync_idgen(self):
        '''
        How many ids a *rejected* new consumes is fixed by no statement: bring the
        reference generator to the position the real one shows.
        '''
        g, rg = self.w.gen, self.ref.idgen
        if not self.extra['has_peek'] or not hasattr(rg, 'k'):
            return
        cur = g.peek()
        for k in range(max(0, rg.k - 8), rg.k + 9):
            if rg.seq(k) == cur:
                rg.k = k
                return

    def note_fault(self, op, exc):
        k = op['op']
        if k == 'relate' and exc == 'RelateException':
            self.bump(self.faults, 'F1_relate_overflow')
        elif k == 'unrelate' and exc == 'UnrelateException':
            self.bump(self.faults, 'F1_unrelate_unlinked')
        elif exc == 'UnknownLinkException':
            self.bump(self.faults, 'F1_unknown_link')
        elif k == 'delete':
            self.bump(self.faults, 'F1_delete_again')
        elif k == 'set':
            self.bump(self.faults, 'F1_set_referential')
        elif k == 'new' and exc == 'MetaException':
            self.bump(self.faults, 'F1_unknown_type')
        elif k == 'new':
            self.bump(self.faults, 'F1_new_rejected')
        elif k == 'define_again':
            self.bump(self.faults, 'F1_define_again')
        else:
            self.bump(self.faults, 'F1_other')

    def render_outcome(self, exp, act):
        if exp is None:
            return None
        t = exp[0]
        if t in ('seq',):
            return self.w.labels(act)
        if t in ('inst', 'oneof_inst'):
            return self.w.label(act)
        if t in ('ret', 'oneof'):
            return self.cv(act)
        return t

    # ---- real side
    def inst(self, h):
        return None if h is None else self.w.h2i[h]

    def qops(self, q):
        x = self.x
        out = []
        for item in q:
            f = item[0]
            if f == 'eq':
                out.append(x.where_eq(**{sp: v for sp, v in item[1]}))
            elif f == 'dict':
                out.append({sp: v for sp, v in item[1]})
            elif f == 'lam':
                _, sp, cmpop, v = item
                out.append({'==': lambda sel, sp=sp, v=v: getattr(sel, sp) == v,
                            '!=': lambda sel, sp=sp, v=v: getattr(sel, sp) != v,
                            '<': lambda sel, sp=sp, v=v: getattr(sel, sp) < v,
                            '>=': lambda sel, sp=sp, v=v: getattr(sel, sp) >= v}[cmpop])
            else:
                _, names, rev = item
                out.append(x.reverse_order_by(*names) if rev else x.order_by(*names))
        return out

    def real(self, op, exp):
        x, w, m = self.x, self.w, self.w.m
        k = op['op']
        if k == 'new':
            kw = {}
            for sp, v in op['kw']:
                kw[sp] = v
            if len(kw) != len(op['kw']):
                raise Skip('duplicate keyword')
            peek = None
            if self.extra['has_peek']:
                peek = w.gen.peek()
            self.peek_before = peek
            if op['via'] == 'mm':
                inst = m.new(op['kind'], *op['args'], **kw)
            elif op['via'] == 'mc':
                inst = m.find_metaclass(op['kind']).new(*op['args'], **kw)
            else:
                inst = m.find_metaclass(op['kind'])(*op['args'], **kw)
            w.bind(op['h'], inst)
            return inst
        if k in ('relate', 'unrelate'):
            f = x.relate if k == 'relate' else x.unrelate
            if op['phrase'] == '' and self.step % 2:
                return f(self.inst(op['x']), self.inst(op['y']), op['rel'])
            return f(self.inst(op['x']), self.inst(op['y']), op['rel'], op['phrase'])
        if k == 'delete':
            i = self.inst(op['h'])
            if op['via'] == 'fn':
                return x.delete(i)
            return x.get_metaclass(i).delete(i)
        if k == 'set':
            setattr(self.inst(op['h']), op['name'], op['v'])
            return None
        if k == 'get':
            return getattr(self.inst(op['h']), op['name'])
        if k == 'del':
            delattr(self.inst(op['h']), op['name'])
            return None
        if k == 'select':
            q = self.qops(op['q'])
            tgt = m if op['via'] == 'mm' else m.find_metaclass(op['kind'])
            args = (op['kind'],) if op['via'] == 'mm' else ()
            if op.get('mcq') and op['form'] == 'many' and op['via'] != 'mm' and len(op['q']) == 1 \
                    and op['q'][0][0] in ('eq', 'dict'):
                r = x.QuerySet(tgt.query({sp: v for sp, v in op['q'][0][1]}))
            elif op['form'] == 'many':
                r = tgt.select_many(*(args + tuple(q)))
            elif op['form'] == 'one' or op['via'] != 'mm':
                r = tgt.select_one(*(args + tuple(q)))
            else:
                r = tgt.select_any(*(args + tuple(q)))
            if op.get('hold'):
                self.holds[op['hold']] = (r, list(exp[1]))
            return r
        if k == 'nav':
            st = op['start']
            sk = st['k']
            if sk == 'none':
                start = None
            elif sk == 'inst':
                start = self.inst(st['h'][0])
            elif sk == 'set':
                start = x.QuerySet([self.inst(h) for h in st['h']])
            elif sk == 'list':
                start = [self.inst(h) for h in st['h']]
            elif sk == 'gen':
                start = (self.inst(h) for h in list(st['h']))
            else:
                start = m.select_many(st['kind'])
            chain = {'many': x.navigate_many, 'one': x.navigate_one, 'any': x.navigate_any}[op['form']](start)
            for to, rel, phrase in op['chain']:
                if op['syntax'] == 'nav':
                    chain = chain.nav(to, rel, phrase) if phrase or self.step % 2 else chain.nav(to, rel)
                else:
                    chain = getattr(chain, to)[rel, phrase] if phrase or self.step % 2 else getattr(chain, to)[rel]
            r = chain(*self.qops(op['q']))
            if op.get('hold'):
                self.holds[op['hold']] = (r, list(exp[1]))
            return r
        if k == 'subtype':
            return x.navigate_subtype(self.inst(op['h']), op['rel'])
        if k == 'sort':
            return self.do_sort(op)
        if k == 'sort_long':
            return self.do_sort_long(op)
        if k == 'check':
            return self.do_check(op)
        if k == 'idgen':
            g = w.gen
            if op['f'] == 'peek':
                return g.peek()
            if op['f'] == 'peek2':
                a = g.peek()
                b = g.peek()
                if a != b:
                    raise Violation('idgen', 'two consecutive peek() calls returned %r and %r' % (a, b), 'idgen:peek')
                return b
            if op['f'] == 'next':
                return g.next() if hasattr(g, 'next') else next(g)
            return next(g)
        if k == 'add_attr':
            mc = m.find_metaclass(op['kind'])
            if op['index'] is None or op['index'] > len(mc.attributes):
                mc.append_attribute(op['name'], op['type'])
            else:
                mc.insert_attribute(op['index'], op['name'], op['type'])
            self.bump(self.probes, 'attribute_added')
            return None
        if k == 'grow':
            for c in op['classes']:
                m.define_class(c['kind'], [tuple(a) for a in c['attrs']])
            a = op['assoc']
            ass = m.define_association(a['rel'], a['src'], list(a['src_keys']), a['src_many'], a['src_cond'], a['src_phrase'],
                                       a['tgt'], list(a['tgt_keys']), a['tgt_many'], a['tgt_cond'], a['tgt_phrase'])
            ass.formalize()
            for u in op['uniques']:
                m.define_unique_identifier(u['kind'], u['name'], *u['attrs'])
            self.bump(self.probes, 'schema_grown')
            return None
        if k == 'swap_attr':
            mc = m.find_metaclass(op['kind'])
            declared = [n for n, _ in mc.attributes if n.upper() == op['drop'].upper()]
            mc.delete_attribute(declared[0])
            if op['name'] is not None:
                if op['index'] is None or op['index'] > len(mc.attributes):
                    mc.append_attribute(op['name'], op['type'])
                else:
                    mc.insert_attribute(op['index'], op['name'], op['type'])
            self.bump(self.probes, 'attribute_swapped')
            return None
        if k == 'reseed':
            # environment event: the application (or a test harness, or another library) re-seeds the global PRNG
            import random as _random
            _random.seed(op['k'])
            self.bump(self.faults, 'F8_global_prng_reseeded')
            return None
        if k == 'swap_idgen':
            g, rg = make_idgen(x, op['kind'], 0)
            if op['kind'] not in ('integer', 'user', 'user_next', 'iter') and not seams.uuid_through_seam(x):
                self.ref.idgen = rg
            m.id_generator = g
            w.gen = g
            self.extra['has_peek'] = callable(getattr(g, 'peek', None))
            self.bump(self.probes, 'idgen_swapped')
            return None
        if k == 'recheck':
            if op['slot'] not in self.holds:
                raise Skip('no such held result')
            r, expected = self.holds[op['slot']]
            got = w.labels(r)
            if got != expected:
                raise Violation('held', 'step %d: result held since an earlier step now reads %s, it was %s'
                                % (self.step, got, expected), 'held')
            self.bump(self.probes, 'held_rechecked')
            return None
        if k == 'define_again':
            return m.define_class(op['kind'], [('Other', 'integer')])
        if k == 'find_class':
            cls = m.find_class(op['kind'])
            mc = m.find_metaclass(op['kind'])
            if x.get_metaclass(cls) is not mc:
                raise Violation('outcome', 'find_class(%r) and find_metaclass disagree' % op['kind'], 'find_class')
            return mc.kind
        raise ValueError(k)

    # ---- outcome checks
    def check_outcome(self, op, exp, act):
        w, ref = self.w, self.ref
        t = exp[0]
        k = op['op']
        if t == 'ret':
            if k in ('relate', 'unrelate'):
                if bool(act) is not bool(exp[1]) or not isinstance(act, bool):
                    raise Violation('outcome', 'step %d %r returned %r, expected %r' % (self.step, op, act, exp[1]),
                                    'outcome:%s:return' % k)
                if k == 'relate' and exp[1]:
                    self.probe_relate(op)
                    if exp[2]:
                        self.bump(self.probes, 'relate_noop')
                if op.get('undo'):
                    self.bump(self.probes, 'undo_checked')
            elif k == 'delete':
                if exp[2] >= 2:
                    self.bump(self.probes, 'delete_with_2_links')
            elif k == 'set':
                if self.ref.schema.declared(self.ref.kind_of(op['h']), op['name']) != op['name']:
                    self.bump(self.probes, 'write_then_read_other_spelling')
            elif k == 'del':
                pass
            elif not self.same(act, exp[1]):
                raise Violation('outcome' if k != 'idgen' else 'idgen',
                                'step %d %r returned %r, expected %r' % (self.step, op, act, exp[1]),
                                'outcome:%s:value' % k)
            if k == 'idgen' and op['f'].startswith('peek'):
                self.bump(self.probes, 'idgen_peek')
            if k == 'del':
                self.bump(self.probes, 'delattr')
        elif t == 'oneof':
            if self.cv(act) not in [self.cv(c) for c in exp[1]]:
                raise Violation('referential', 'step %d %r read %r, linked identifying values are %r'
                                % (self.step, op, act, exp[1]), 'referential:get')
        elif t == 'seq':
            if not isinstance(act, self.x.QuerySet):
                raise Violation('outcome', 'step %d %r returned a %s, not a QuerySet' % (self.step, op, type(act).__name__),
                                'outcome:%s:type' % k)
            got = w.labels(act)
            if got != exp[1]:
                raise Violation('query' if k == 'select' else 'navigation',
                                'step %d %r returned %s, reference %s' % (self.step, op, got, exp[1]),
                                '%s:%s' % ('query' if k == 'select' else 'navigation', op['form']))
            self.probe_query(op, exp[1])
        elif t == 'inst':
            got = w.label(act)
            if got != exp[1]:
                raise Violation('query' if k == 'select' else 'navigation',
                                'step %d %r returned %s, reference %s' % (self.step, op, got, exp[1]),
                                '%s:%s' % ('query' if k == 'select' else 'navigation', op.get('form', k)))
            self.probe_query(op, [exp[1]] if exp[1] else [])
        elif t == 'oneof_inst':
            if w.label(act) not in exp[1]:
                raise Violation('navigation', 'step %d %r returned %s, related subtype instances are %s'
                                % (self.step, op, w.label(act), exp[1]), 'navigation:subtype')
        elif t == 'new':
            self.check_new(op, exp[1], act)
        elif t == 'any':
            self.bump(self.probes, 'delattr_unset')

    def probe_relate(self, op):
        ref = self.ref
        kx = ref.kind_of(op['x'])
        ky = ref.kind_of(op['y'])
        if kx.upper() == ky.upper():
            self.bump(self.probes, 'reflexive_relate')
        rel = op['rel'] if isinstance(op['rel'], int) else int(op['rel'][1:])
        if len([a for a in ref.schema.assocs if a['rel'] == rel]) > 1:
            self.bump(self.probes, 'assoc_class_relate')

    def probe_query(self, op, result):
        if op['op'] == 'nav':
            if len(op['chain']) >= 3:
                self.bump(self.probes, 'nav_len3')
            if op['start']['k'] in ('set', 'gen', 'list', 'select'):
                self.bump(self.probes, 'nav_from_set')
            sch = self.ref.schema
            for to, rel, phrase in op['chain']:
                if phrase:
                    self.bump(self.probes, 'nav_reflexive')
            if result and self.was_two_hop(op):
                self.bump(self.probes, 'nav_two_hop')
        elif op['op'] == 'select':
            if op['form'] != 'many' and not result:
                self.bump(self.probes, 'select_one_none')
            for item in op['q']:
                if item[0] == 'order' and len(result) >= 2:
                    kind = self.ref.schema.cls(op['kind'])['kind']
                    keys = [tuple(self.cv(self.ref.read_or_none(h, n)) for n in item[1]) for h in result]
                    if len(set(keys)) < len(keys):
                        self.bump(self.probes, 'order_with_ties')
                if item[0] == 'eq' and any(sp != self.ref.schema.declared(op['kind'], sp) for sp, _ in item[1]):
                    self.bump(self.probes, 'where_eq_spelling')
        elif op['op'] == 'subtype' and result:
            self.bump(self.probes, 'subtype_found')

    def was_two_hop(self, op):
        sch = self.ref.schema
        kind = None
        st = op['start']
        if st['k'] == 'select':
            kind = st['kind']
        elif st.get('h'):
            kind = self.ref.kind_of(st['h'][0])
        if kind is None:
            return False
        for to, rel, phrase in op['chain']:
            r = rel if isinstance(rel, int) else int(rel[1:])
            direct = any(a['rel'] == r and {a['src'].upper(), a['tgt'].upper()} == {kind.upper(), to.upper()}
                         for a in sch.assocs)
            if not direct:
                return True
            kind = to
        return False

    def check_new(self, op, defaulted, inst):
        '''C19: typed defaults, positional then keyword arguments, defaulted ids from the generator.'''
        ref, w = self.ref, self.w
        h = op['h']
        kind = ref.kind_of(h)
        if self.x.get_metaclass(inst).kind.upper() != kind.upper():
            raise Violation('new', 'step %d: new(%r) created an instance of %s' % (self.step, op['kind'],
                                                                                 self.x.get_metaclass(inst).kind), 'new:class')
        for name, ty in ref.schema.attrs(kind):
            if name in ref.schema.referential(kind):
                continue
            got = getattr(inst, name)
            want = ref.getattr(h, name)
            if not self.same(got, want):
                src = 'generator' if name in defaulted else 'default/argument'
                raise Violation('new', 'step %d %r: attribute %s reads %r, expected %r (%s)'
                                % (self.step, op, name, got, want, src),
                                'new:%s' % ('id' if name in defaulted else 'value'))
        tape = seams.LAST_TAPE[0]
        if tape is not None and tape.bad:
            raise Violation('new', 'step %d: %s' % (self.step, tape.bad), 'new:id-entropy')
        if defaulted:
            self.bump(self.probes, 'defaulted_ids', len(defaulted))
            for name, v in defaulted.items():
                if v == 0 or v is None:
                    raise Violation('new', 'step %d: defaulted unique id %s is the null id' % (self.step, name), 'new:null-id')
        if op['args']:
            self.bump(self.probes, 'new_positional')
        if op['kw']:
            self.bump(self.probes, 'new_keyword')
        if any(sp != ref.schema.declared(kind, sp) for sp, _ in op['kw']):
            self.bump(self.probes, 'write_then_read_other_spelling')

    # ---- C16
    def do_sort_long(self, op):
        '''
        Scale: "for every set ... and the call always terminates".  A private metamodel (the shared one is compared
        in full after every step) with one chain or ring of op['n'] instances created in a scrambled order.
        '''
        x = self.x
        m = x.MetaModel()
        m.define_class('N', [('Id', 'integer'), ('Prev_Id', 'integer')])
        m.define_association('R1', 'N', ['Prev_Id'], False, True, 'succeeds', 'N', ['Id'], False, True, 'precedes').formalize()
        n = op['n']
        rng = random.Random(op['seed'])
        order = list(range(n))
        rng.shuffle(order)
        by_pos = {}
        for pos in order:
            by_pos[pos] = m.new('N', Id=pos + 1)
        for pos in range(1, n):
            # by_pos[pos] succeeds by_pos[pos - 1]
            x.relate(by_pos[pos], by_pos[pos - 1], 1, 'succeeds')
        if op['ring']:
            x.relate(by_pos[0], by_pos[n - 1], 1, 'succeeds')
        members = list(m.select_many('N'))
        rng.shuffle(members)
        qs = x.QuerySet(members)
        for phrase, sign in (('succeeds', 1), ('precedes', -1)):
            try:
                res = list(x.sort_reflexive(qs, 1, phrase))
            except RecursionError as e:
                raise Violation('sort', 'step %d: sort_reflexive of a %s of %d instances across %r raised RecursionError'
                                % (self.step, 'ring' if op['ring'] else 'chain', n, phrase), 'sort:long:RecursionError')
            ids = [i.Id for i in res]
            if op['ring']:
                start = ids[0] if ids else None
                want = [((start - 1 + sign * k) % n) + 1 for k in range(n)] if start == members[0].Id else None
            else:
                want = list(range(1, n + 1))[::sign]
            if ids != want:
                raise Violation('sort', 'step %d: sort_reflexive of a %s of %d instances across %r returned %d members, '
                                'beginning %s; expected beginning %s'
                                % (self.step, 'ring' if op['ring'] else 'chain', n, phrase, len(ids), ids[:6],
                                   (want or ['<the first member of the set>'])[:6]), 'sort:long')
        self.bump(self.probes, 'sort_long_%s' % ('ring' if op['ring'] else 'chain'))
        return None

    def do_sort(self, op):
        '''
        One sort, and for op['again'] a second one of the *same* QuerySet object after it has lost the chain of its
        first member ('drop') or has got it back at its end ('readd'): a set is an object with a history too.
        '''
        self._last_sort = None
        res = self._do_sort(op)
        st = self._last_sort
        if op.get('again') and st and len(st[1]) > 1:
            qs, hs, i = st
            first = [c for c in components(self.ref, i, hs) if hs[0] in c['members']]
            drop = [h for h in hs if first and h in first[0]['members']]
            if op['again'] == 'rotate':
                drop = [hs[0]]      # the first member goes to the end: a ring has to start somewhere else now
            if drop and len(drop) < len(hs):
                for h in drop:
                    qs.remove(self.w.h2i[h])
                hs2 = [h for h in hs if h not in drop]
                if op['again'] in ('readd', 'rotate'):
                    for h in drop:
                        qs.add(self.w.h2i[h])
                    hs2 += drop
                self._do_sort(op, qs, hs2)
                self.bump(self.probes, 'sort_same_object_again')
        return res

    def _do_sort(self, op, qs=None, hs_given=None):
        ref, w, x = self.ref, self.w, self.x
        hs = []
        for h in (op['hs'] if hs_given is None else hs_given):
            if h in ref.rows and ref.rows[h].alive and h not in hs:
                hs.append(h)
        rel = op['rel'] if not isinstance(op['rel'], int) else 'R%d' % op['rel']
        cand = [(i, a) for i, a in enumerate(ref.schema.assocs)
                if 'R%d' % a['rel'] == rel and ref.schema.reflexive(a) and not a['src_many'] and not a['tgt_many']]
        if not cand:
            raise Skip('no reflexive 1:1 association')
        i, a = cand[0]
        if any(ref.kind_of(h).upper() != a['src'].upper() for h in hs):
            raise Skip('wrong class')
        phrase = op['phrase']
        if phrase not in (a['src_phrase'], a['tgt_phrase']):
            raise Skip('phrase')
        # the statement is about chains of a one-to-one association: a loaded population with duplicate keys
        # can over-populate its ends, and then there are no chains to speak of
        for s_, t_ in ref.pairs[i]:
            if len(ref.partners(i, s_, True)) > 1 or len(ref.partners(i, t_, False)) > 1:
                raise Skip('links are not one-to-one')
        other = a['tgt_phrase'] if phrase == a['src_phrase'] else a['src_phrase']

        def nav(h, p):
            r = ref.partners(i, h, p == a['src_phrase'])
            return r[0] if r else None

        if qs is None:
            qs = x.QuerySet([w.h2i[h] for h in hs])
        self._last_sort = (qs, hs, i)
        budget = 4000 + 1500 * (len(hs) + 1) * (len(ref.live(a['src'])) + 1)
        metered = self.cfg.get('meter') and self.e.meter.available
        if metered:
            self.e.meter.start(budget)
        try:
            res = x.sort_reflexive(qs, op['rel'], phrase)
        finally:
            if metered:
                self.e.meter.stop()
        if w.labels(qs) != hs:
            raise Violation('sort', 'step %d: sort_reflexive changed the set it was given: %s, was %s'
                            % (self.step, w.labels(qs), hs), 'sort:argument-mutated')
        got = w.labels(res)
        comps = components(ref, i, hs)
        whole = all(set(c['members']) <= set(hs) for c in comps)
        if not hs:
            self.bump(self.probes, 'sort_empty')
            if got:
                raise Violation('sort', 'sorting the empty set returned %s' % got, 'sort:empty')
            return res
        if not whole:
            self.bump(self.probes, 'sort_partial')
            return res          # termination only
        rings = [c for c in comps if c['ring']]
        chains = [c for c in comps if not c['ring']]
        if rings and (chains or len(rings) > 1):
            return res          # mixtures with rings are outside the statement: termination only
        if rings:
            exp = [hs[0]]
            cur = nav(hs[0], other)
            while cur is not None and cur != hs[0]:
                exp.append(cur)
                cur = nav(cur, other)
            if got != exp:
                raise Violation('sort', 'step %d: ring %s sorted across %r from first member %s gave %s, expected %s'
                                % (self.step, sorted(hs), phrase, hs[0], got, exp), 'sort:ring')
            if len(exp) >= 2:
                self.bump(self.probes, 'sort_ring_ge2')
            return res
        if sorted(got) != sorted(hs):
            raise Violation('sort', 'step %d: sorting %s across %r returned %s: not a permutation of the set'
                            % (self.step, hs, phrase, got), 'sort:permutation')
        # every chain contiguous, starting at the member without partner across `phrase`, following `other`
        pos = 0
        seen = 0
        while pos < len(got):
            head = got[pos]
            if nav(head, phrase) is not None:
                raise Violation('sort', 'step %d: sorting %s across %r returned %s: %s at position %d starts a chain but '
                                'has a partner across %r' % (self.step, hs, phrase, got, head, pos, phrase), 'sort:head')
            cur = head
            n = 0
            while cur is not None:
                if pos >= len(got) or got[pos] != cur:
                    raise Violation('sort', 'step %d: sorting %s across %r returned %s: expected %s at position %d '
                                    '(chain of %s along %r)' % (self.step, hs, phrase, got, cur, pos, head, other),
                                    'sort:order')
                pos += 1
                n += 1
                cur = nav(cur, other)
            if n >= 3:
                self.bump(self.probes, 'sort_chain_ge3')
            seen += 1
        if seen >= 2:
            self.bump(self.probes, 'sort_multi_chain')
        return res

    # ---- C11
    def do_check(self, op):
        ref, x, m = self.ref, self.x, self.w.m
        f = op['f']
        if self.w.zombies:
            raise Skip('a rejected new left a half-built instance')
        if f in ('all', 'assoc'):
            rel = op.get('rel')
            got = x.check_association_integrity(m, rel) if f == 'assoc' else x.check_association_integrity(m)
            want = ref.association_violations(rel if f == 'assoc' else None)
            if got != want:
                raise Violation('check', 'step %d: check_association_integrity(%r) = %r, the model has %d violating '
                                '(instance, end) pairs' % (self.step, rel, got, want), 'check:assoc')
            self.bump(self.probes, 'check_nonzero_assoc' if want else 'check_zero')
        if f in ('all', 'unique'):
            kind = op.get('kind')
            got = x.check_uniqueness_constraint(m, kind) if f == 'unique' else x.check_uniqueness_constraint(m)
            lo, hi = ref.identifier_violations(kind if f == 'unique' else None)
            if not (lo <= got <= hi):
                raise Violation('check', 'step %d: check_uniqueness_constraint(%r) = %r, the model has between %d and %d '
                                'identifier violations' % (self.step, kind, got, lo, hi), 'check:unique')
            self.bump(self.probes, 'check_nonzero_unique' if lo else 'check_zero')
        if f == 'consistent':
            got = m.is_consistent()
            lo, hi = ref.identifier_violations()
            av = ref.association_violations()
            if lo == 0 and hi > 0 and av == 0:
                return None     # only the open reading decides: no verdict demanded
            want = (av == 0 and hi == 0)
            if got is not want:
                raise Violation('check', 'step %d: is_consistent() = %r with %d association and %d..%d identifier violations'
                                % (self.step, got, av, lo, hi), 'check:consistent')
            self.bump(self.probes, 'check_consistent_true' if want else 'check_consistent_false')
        if f == 'subtype':
            kind, rel = op['kind'], op['rel']
            reln = rel if not isinstance(rel, int) else 'R%d' % rel
            got = x.check_subtype_integrity(m, kind, rel)
            want = 0
            for h in ref.live(kind):
                n = 0
                for i, a in enumerate(ref.schema.assocs):
                    if 'R%d' % a['rel'] == reln and a['tgt'].upper() == kind.upper():
                        n += len(ref.partners(i, h, False))
                if n == 0:
                    want += 1
            if got != want:
                raise Violation('check', 'step %d: check_subtype_integrity(%s, %r) = %r, %d supertype instances lack a subtype'
                                % (self.step, kind, rel, got, want), 'check:subtype')
        return None

    # ---- whole-state comparison through the public API
    def observe(self):
        '''
        Exact observational snapshot (order included): pools, every attribute read, navigation from both ends of
        every association for every live instance, serialized text.  Used where the statements say "exactly as it
        was": around rejected calls and around relate + matching unrelate.
        '''
        ref, w, x, m = self.ref, self.w, self.x, self.w.m
        out = []
        for c in ref.schema.classes:
            if c.get('bad') or c['kind'].upper() in w.zombies:
                continue
            insts = list(m.select_many(c['kind']))
            out.append(('pool', c['kind'], tuple(w.labels(insts))))
            for inst in insts:
                vals = []
                for name, ty in c['attrs']:
                    try:
                        vals.append(self.cv(getattr(inst, name)))
                    except AttributeError:
                        vals.append('<unset>')
                out.append(('row', w.label(inst), tuple(vals)))
        for i, a in enumerate(ref.schema.assocs):
            rel = 'R%d' % a['rel']
            for from_referring in (True, False):
                fk = a['src'] if from_referring else a['tgt']
                tk = a['tgt'] if from_referring else a['src']
                phrase = a['src_phrase'] if from_referring else a['tgt_phrase']
                if fk.upper() in w.zombies or tk.upper() in w.zombies:
                    continue
                for h in ref.live(fk):
                    res = x.navigate_many(w.h2i[h]).nav(tk, rel, phrase)()
                    out.append(('nav', i, from_referring, h, tuple(w.labels(res))))
        out.append(('text', self.serialized()))
        return out

    def serialized(self):
        try:
            return self.x.serialize_instances(self.w.m)
        except AttributeError:
            return '<unset attribute>'

    def compare_state(self, where):
        ref, w, x, m = self.ref, self.w, self.x, self.w.m
        sch = ref.schema
        for c in sch.classes:
            if c.get('bad') or c['kind'].upper() in w.zombies:
                continue
            kind = c['kind']
            got = w.labels(m.select_many(kind))
            want = ref.live(kind)
            if got != want:
                raise Violation('pool', 'after %s: instances of %s are %s, reference %s' % (where, kind, got, want), 'pool')
            refs = sch.referential(kind)
            for h in want:
                inst = w.h2i[h]
                row = ref.rows[h]
                for name, ty in c['attrs']:
                    if name in refs:
                        cands = ref.ref_candidates(h, name)
                        v = getattr(inst, name)
                        if self.cv(v) not in [self.cv(cnd) for cnd in cands]:
                            if isinstance(v, str) and any(isinstance(c_, str) and '\r' in c_ and
                                                          v == c_.replace('\r\n', '\n').replace('\r', '\n') for c_ in cands):
                                raise Violation('value', 'after %s: %s.%s reads %r, the identifying value written was one of '
                                                '%r: carriage returns were translated to line feeds' % (where, h, name, v, cands),
                                                'value:cr-translated')
                            raise Violation('referential', 'after %s: %s.%s reads %r, identifying values of the linked '
                                            'instances: %r' % (where, h, name, v, cands), 'referential')
                    elif name in row.unset:
                        for sp in spellings(name)[:4]:
                            try:
                                v = getattr(inst, sp)
                            except AttributeError:
                                continue
                            raise Violation('alias', 'after %s: %s.%s was deleted but reads %r under the spelling %s'
                                            % (where, h, name, v, sp), 'alias:deleted')
                    else:
                        want_v = row.values[name]
                        names = spellings(name) if self.prop == 'C10' else [name]
                        for sp in names:
                            try:
                                v = getattr(inst, sp)
                            except AttributeError:
                                raise Violation('value', 'after %s: %s.%s (spelling %s) has lost its value %r'
                                                % (where, h, name, sp, want_v), 'value:lost')
                            if not self.same(v, want_v):
                                if isinstance(want_v, str) and isinstance(v, str) and '\r' in want_v and \
                                        v == want_v.replace('\r\n', '\n').replace('\r', '\n'):
                                    raise Violation('value', 'after %s: %s.%s reads %r, the value written was %r: carriage '
                                                    'returns were translated to line feeds' % (where, h, name, v, want_v),
                                                    'value:cr-translated')
                                raise Violation('alias' if sp != name else 'value',
                                                'after %s: %s.%s reads %r under the spelling %s, the value written last is %r'
                                                % (where, h, name, v, sp, want_v),
                                                'alias' if sp != name else 'value')
        # links: both directions of every association, for every live instance
        for i, a in enumerate(sch.assocs):
            rel = 'R%d' % a['rel']
            for from_referring in (True, False):
                fk = a['src'] if from_referring else a['tgt']
                tk = a['tgt'] if from_referring else a['src']
                phrase = a['src_phrase'] if from_referring else a['tgt_phrase']
                if fk.upper() in w.zombies or tk.upper() in w.zombies:
                    continue
                for h in ref.live(fk):
                    res = x.navigate_many(w.h2i[h]).nav(tk, rel, phrase)()
                    got = w.labels(res)
                    want = ref.partners(i, h, from_referring)
                    if sorted(got) != sorted(want) or len(set(got)) != len(got):
                        dirn = 'referring->referred' if from_referring else 'referred->referring'
                        bad = [g for g in got if g not in want]
                        dead = [g for g in bad if g.startswith('foreign') or (g in ref.rows and not ref.rows[g].alive)]
                        raise Violation('links', 'after %s: navigating %s from %s to %s[%s,%r] (%s) reaches %s, the link '
                                        'pairs give %s%s' % (where, rel, h, tk, rel, phrase, dirn, got, want,
                                                             '; not live: %s' % dead if dead else ''),
                                        'links:dead' if dead else 'links')
                    if got != want:
                        ref.adopt_order(i, h, from_referring, got)
                        self.bump(self.probes, 'nav_order_adopted')
        if self.prop in ('C10', 'C02') and not w.zombies:
            self.compare_serialized(where)

    def compare_serialized(self, where):
        '''the value serialized is the value written (C10); also exercises serialize on every state'''
        ref, w, x = self.ref, self.w, self.x
        for c in ref.schema.classes:
            if c.get('bad'):
                continue
            for h in ref.live(c['kind']):
                row = ref.rows[h]
                if row.unset:
                    continue
                text = x.serialize_instance(w.h2i[h])
                vals = []
                for name, ty in c['attrs']:
                    if name in ref.schema.referential(c['kind']):
                        vals.append(None)
                    else:
                        vals.append(x.serialize_value(row.values[name], ty))
                body = text[text.index('(') + 1:]
                for (name, ty), sv in zip(c['attrs'], vals):
                    if sv is None:
                        continue
                    marker = '\n    %s' % sv
                    if marker not in body:
                        raise Violation('serialized', 'after %s: serialize_instance(%s) does not carry %s=%s:\n%s'
                                        % (where, h, name, sv, text), 'serialized')

    def record_state(self):
        ref = self.ref
        nlinks = sum(len(p) for p in ref.pairs)
        nlive = sum(len(v) for v in ref.pool.values())
        trivial = nlinks == 0 and not (self.prop in ('C10', 'C19') and nlive >= 2)
        if trivial:
            return
        sig = []
        for kind in sorted(ref.pool):
            for h in ref.pool[kind]:
                row = ref.rows[h]
                sig.append((h, tuple(sorted((n, self.cv(v)) for n, v in row.values.items()))))
        sig.append(tuple(tuple(p) for p in ref.pairs))
        self.states.add(stable_hash(sig))


ENGINE = StoreEngine()
