'''
Engine `loadfault` -- property C12 (DESIGN.md §4/C12): fault enumeration over
stored model text.

Corpus: the SQL / xtUML files of the repository (tests/resources, the texts in
bridgepoint/schema.py) plus seeded generated databases.  Fault sites (F2), for
every statement of the corpus: truncation after every character; for every
token: delete, duplicate, swap with its successor, lexical-class flip, single
character flips at its first, middle and last character; statement-level drop,
duplicate and swap; random token soups.  Quick tier: a seeded sample of the
sites of every block; thorough tier: every site.

Workload around each fault: a loader L that has accepted a prefix (the CREATE
TABLE statements of the classes the block mentions plus earlier accepted
chunks), and a twin T, a second real loader that receives everything L
receives except the faulty chunks.  The faulty chunk -- one or two intact
statements followed by the damaged one, so that a half-applied chunk is
visible -- goes to L only, through input / file_input / filename_input on the
simulated disk (short reads; optionally an injected read error, F5).

Oracles: (1) the faulty input returns or raises xtuml.ParsingException,
nothing else (OSError only when F5 fired); (2) after a rejection L and T build
equal metamodels, again after a common suffix; (3) building accepted text
returns or raises ParsingException / MetaException, never a built-in error;
(4) metered line events within a linear budget, wall-clock backstop.
'''
import os
import random
import time

from sim.engine import Engine, Log, Violation, stable_hash
from sim.meter import SimStall, WallGuard, Meter
from sim.rng import Streams, h64
from sim import seams, build
from sim.disk import SimDisk
from engines import refstore, sqlgen

BLOCK = 12          # statements per run
GENERATED = 48      # seeded generated databases in the corpus
KINDS = ('odd', 'tail', 'trunc', 'tok_del', 'tok_dup', 'tok_swap', 'tok_flip', 'chr_flip', 'stmt_drop', 'stmt_dup', 'stmt_swap', 'soup', 'redos')

FLIP = {
    'number': ["'7'", '"00000000-0000-0000-0000-000000000007"', '7.5', 'TRUE', 'seven', '-7', '99999999999999999999999999',
               "'50%'", '"%d-0000-0000-0000-000000000001"', "'%s'"],
    'fraction': ["'1.5'", '15', 'FALSE', '"1.5"', 'x1'],
    'string': ['17', '1.25', '"00000000-0000-0000-0000-000000000001"', 'TRUE', 'abc', "''", "'\n'"],
    'guid': ["'00000000-0000-0000-0000-000000000001'", '42', '"not-a-guid"', '""', 'FALSE', '"zzzzzzzz-0000-0000-0000-000000000001"',
             '"00000000-0000-0000-0000-00000000%1"', "'100%'"],
    'ident': ['123', "'ident'", 'TABLE', 'M', 'MC', '1C', 'R9', '_x', '__class__', '__dict__', '__metaclass__', '__init__',
              '__doc__'],
    'punct': [',', '(', ')', ';', '-', ''],
}
CHARS = "aZ0_'\"-;,()\n \t.\\\x00éR1\xa0\x0b\u2028&"
SOUP = ['CREATE', 'TABLE', 'INSERT', 'INTO', 'VALUES', 'ROP', 'REF_ID', 'FROM', 'TO', 'PHRASE', 'UNIQUE', 'INDEX', 'ON',
        'TRUE', 'FALSE', 'X', 'Y', 'Id', 'INTEGER', 'STRING', 'M', 'MC', '1', '1C', 'R1', 'R22', '(', ')', ',', ';', '-',
        '5', '0.5', "'s'", "''", '"00000000-0000-0000-0000-000000000001"', '-- c\n', '\n', 'I1']


PROBE = "CREATE TABLE Probe_ (\n    A INTEGER,\n\n    B STRING\n);\nINSERT INTO Probe_\n  VALUES (1,\n  @);\n"
# "arbitrary strings": legal-looking but odd texts a model file may contain after hand editing or from another tool;
# each goes through the same protocol (accepted or ParsingException; build succeeds or raises a documented exception)
ODD = [
    "CREATE TABLE Odd_ (__class__ INTEGER); INSERT INTO Odd_ VALUES (1);",
    "CREATE TABLE Odd_ (__dict__ STRING); INSERT INTO Odd_ VALUES ('a');",
    "CREATE TABLE Odd_ (__metaclass__ INTEGER); INSERT INTO Odd_ VALUES (1);",
    "CREATE TABLE Odd_ (__init__ INTEGER, __str__ STRING, __doc__ STRING); INSERT INTO Odd_ VALUES (1, 'a', 'b');",
    "INSERT INTO Odd_ (__class__) VALUES (1);",
    "INSERT INTO Odd_ (__dict__, x) VALUES (1, 2);",
    "CREATE TABLE Odd_ (a INTEGER, a INTEGER); INSERT INTO Odd_ VALUES (1, 2);",
    "CREATE TABLE Odd_ (a INTEGER, A STRING); INSERT INTO Odd_ VALUES (1, 'x');",
    "CREATE TABLE Odd_ (); INSERT INTO Odd_ VALUES ();",
    "INSERT INTO Odd_ VALUES ();",
    "CREATE TABLE Odd_ (a INTEGER); CREATE TABLE odd_ (b STRING);",
    "CREATE TABLE Odd_ (a INTEGER); CREATE TABLE Odd2_ (b INTEGER); CREATE ROP REF_ID R1 FROM 1 Odd_ () TO 1 Odd2_ (); "
    "INSERT INTO Odd_ VALUES (1); INSERT INTO Odd2_ VALUES (1);",
    "CREATE TABLE Odd_ (a INTEGER); CREATE UNIQUE INDEX I1 ON Odd_ ();",
    "CREATE UNIQUE INDEX I1 ON Nope_ (a);",
    "CREATE TABLE Odd_ (a INTEGER); CREATE UNIQUE INDEX I1 ON Odd_ (nope); INSERT INTO Odd_ VALUES (1);",
    "CREATE TABLE Odd_ (a UNKNOWN_T); INSERT INTO Odd_ VALUES (1);",
    "CREATE TABLE Odd_ (a INTEGER); INSERT INTO Odd_ VALUES (1, 2, 3);",
    "CREATE TABLE Odd_ (a INTEGER); INSERT INTO Odd_ (b) VALUES (1);",
    "CREATE TABLE Odd_ (a INTEGER); INSERT INTO Odd_ (a, a) VALUES (1, 2);",
    "CREATE TABLE Odd_ (a UNIQUE_ID); INSERT INTO Odd_ VALUES (\"\");",
    "CREATE TABLE Odd_ (a BOOLEAN); INSERT INTO Odd_ VALUES (2);",
    "CREATE TABLE Odd_ (a BOOLEAN); INSERT INTO Odd_ VALUES ('x');",
    "CREATE TABLE Odd_ (a STRING); INSERT INTO Odd_ VALUES (5);",
    "CREATE TABLE Odd_ (a REAL); INSERT INTO Odd_ VALUES (TRUE);",
    "CREATE TABLE Odd_ (a INTEGER); CREATE TABLE Odd2_ (b INTEGER, c INTEGER); CREATE ROP REF_ID R1 FROM 1 Odd_ (a) TO 1 Odd2_ (b, c); "
    "INSERT INTO Odd_ VALUES (1); INSERT INTO Odd2_ VALUES (1, 1);",
    "CREATE TABLE Odd_ (a INTEGER, d INTEGER); CREATE TABLE Odd2_ (b INTEGER); CREATE ROP REF_ID R1 FROM 1 Odd_ (a, d) TO 1 Odd2_ (b); "
    "INSERT INTO Odd_ VALUES (1, 1); INSERT INTO Odd2_ VALUES (1);",
    "CREATE TABLE Odd_ (a INTEGER); INSERT INTO Odd_ VALUES (1); CREATE ROP REF_ID R1 FROM 1 Odd_ (a) TO 1 Odd_ (a);",
    "CREATE TABLE Odd_ (a INTEGER); CREATE ROP REF_ID R1 FROM 1 Odd_ (a) TO 1 Nope_ (b);",
    "CREATE TABLE Odd_ (a INTEGER); CREATE ROP REF_ID R99999999999999999999 FROM 1 Odd_ (a) TO 1 Odd_ (a);",
    "INSERT INTO Odd_ VALUES (1); INSERT INTO Odd_ VALUES ('a');",
    "INSERT INTO Odd_ VALUES (1); INSERT INTO Odd_ VALUES (1, 2);",
    "INSERT INTO Odd_ (a) VALUES (1); INSERT INTO Odd_ (b) VALUES (2);",
    "CREATE TABLE Odd_ (a INTEGER); INSERT INTO Odd_ VALUES (- 1);",
    "CREATE TABLE Odd_ (a INTEGER); INSERT INTO Odd_ VALUES (99999999999999999999999999999999999999999999);",
    "CREATE TABLE Odd_ (a REAL); INSERT INTO Odd_ VALUES (" + "9" * 400 + ".5);",
    "CREATE TABLE Odd_ (a UNIQUE_ID); INSERT INTO Odd_ VALUES (340282366920938463463374607431768211456);",
    "CREATE TABLE Odd_ (a UNIQUE_ID); INSERT INTO Odd_ VALUES (-1);",
    "CREATE TABLE Odd_ (a UNIQUE_ID); INSERT INTO Odd_ VALUES (\"00000000-0000-0000-0000-00000000000\");",
    "CREATE TABLE Odd2_ (Id INTEGER); CREATE TABLE Odd_ (Id INTEGER, mro INTEGER); "
    "CREATE ROP REF_ID R1 FROM MC Odd_ (mro) TO 1 Odd2_ (Id); INSERT INTO Odd2_ VALUES (1); INSERT INTO Odd_ VALUES (1);",
    "CREATE TABLE Odd_ (a INTEGER, b INTEGER); CREATE ROP REF_ID R1 FROM 1C Odd_ (a, b) PHRASE 'next' TO 1C Odd_ (b) "
    "PHRASE 'prev'; INSERT INTO Odd_ VALUES (1);",
    "CREATE TABLE Odd_ (a INTEGER, b INTEGER); CREATE TABLE Odd2_ (c INTEGER, d INTEGER); "
    "CREATE ROP REF_ID R1 FROM MC Odd_ (a) TO 1 Odd2_ (c, d); INSERT INTO Odd2_ VALUES (1); INSERT INTO Odd_ VALUES (1);",
    "CREATE TABLE Odd2_ (k INTEGER); CREATE TABLE Odd_ (Name STRING, NAME INTEGER); "
    "CREATE ROP REF_ID R1 FROM MC Odd_ (NAME) TO 1 Odd2_ (k); INSERT INTO Odd2_ VALUES (0); INSERT INTO Odd_ VALUES ('x', 0);",
    "CREATE TABLE Odd2_ (k STRING); CREATE TABLE Odd_ (Name INTEGER, NAME STRING); "
    "CREATE ROP REF_ID R1 FROM MC Odd_ (NAME) TO 1 Odd2_ (k); INSERT INTO Odd2_ VALUES (''); INSERT INTO Odd_ VALUES (0, '');",
    "CREATE TABLE Odd_ (mro INTEGER, first STRING, last STRING, items REAL, keys BOOLEAN, clazz UNIQUE_ID); "
    "INSERT INTO Odd_ VALUES (1, 'a', 'b', 1.5, TRUE, 7);",
    "CREATE TABLE M (MC M); INSERT INTO M VALUES (1);",
    "CREATE TABLE Odd_ (a INTEGER); CREATE TABLE Odd2_ (b INTEGER); CREATE ROP REF_ID R1 FROM M Odd_ (a) TO MC Odd2_ (b);",
    # (appended later: replays name these texts by index)
    "CREATE TABLE Odd_ (Id INTEGER, Nm STRING); INSERT INTO Odd_ (Id, Nm) VALUES (1);",
    "CREATE TABLE Odd_ (Id INTEGER); INSERT INTO Odd_ (Id) VALUES ();",
    "CREATE TABLE Odd_ (a INTEGER); INSERT INTO Odd_ VALUES ('x');",
    "CREATE TABLE Odd_ (a INTEGER); INSERT INTO Odd_ VALUES (FALSE);",
    "CREATE TABLE Odd_ (a REAL); INSERT INTO Odd_ VALUES ('1.5');",
    "CREATE TABLE Odd_ (a UNIQUE_ID); INSERT INTO Odd_ VALUES (\"zz\");",
    "CREATE TABLE Odd_ (a UNIQUE_ID); INSERT INTO Odd_ VALUES ('00000000-0000-0000-0000-000000000001');",
    "CREATE TABLE Odd_ (a INTEGER); CREATE TABLE Odd2_ (b INTEGER); CREATE ROP REF_ID R1 FROM MC Odd_ (nope) TO 1 Odd2_ (b); "
    "INSERT INTO Odd_ VALUES (1); INSERT INTO Odd2_ VALUES (1);",
    "CREATE TABLE Odd_ (a INTEGER); CREATE TABLE Odd2_ (b INTEGER); CREATE ROP REF_ID R1 FROM MC Odd_ (a) TO 1 Odd2_ (nope); "
    "INSERT INTO Odd_ VALUES (1); INSERT INTO Odd2_ VALUES (1);",
    "CREATE TABLE Odd_ (a WEIRD_T, c INTEGER); CREATE TABLE Odd2_ (b INTEGER); CREATE ROP REF_ID R1 FROM MC Odd_ (a) TO 1 Odd2_ (b); "
    "INSERT INTO Odd2_ VALUES (1); INSERT INTO Odd_ VALUES (1, 2);",
    "CREATE TABLE Odd_ (a inst_ref<Object>, c INTEGER); INSERT INTO Odd_ VALUES (1, 2);",
    "CREATE TABLE Odd_ (c INTEGER, a WEIRD_T); CREATE TABLE Odd2_ (b WEIRD_T); CREATE ROP REF_ID R1 FROM MC Odd_ (a) TO 1 Odd2_ (b); "
    "INSERT INTO Odd_ VALUES (2, 1); INSERT INTO Odd_ (c, a) VALUES (3, 'x');",
]
REDOS_OPEN = ["'", '"', '--', "INSERT INTO X VALUES ('", 'INSERT INTO X VALUES ("', 'INSERT INTO X VALUES (1.', 'CREATE ROP REF_ID R',
              'INSERT INTO X VALUES (-', "CREATE TABLE X (A STRING); INSERT INTO X VALUES ('"]
REDOS_UNIT = ['a', "''", '\\', '\\"', "'x", ' ', '\n', '1', '.', '-', '--', '\t', 'é', "''''"]
REDOS_N = [12, 17, 22, 30, 40]


def load_corpus(repo):
    files = []
    res = os.path.join(repo, 'tests', 'resources')
    if os.path.isdir(res):
        for name in sorted(os.listdir(res)):
            if name.endswith(('.sql', '.xtuml')):
                with open(os.path.join(res, name), encoding='utf-8') as f:
                    files.append(('resources/' + name, f.read()))
    try:
        import bridgepoint.schema as schema
        for n in ('classes', 'associations', 'indices', 'globals'):
            files.append(('schema.py:' + n, getattr(schema, n)))
    except Exception:
        pass
    for k in range(GENERATED):
        rng = random.Random(h64('corpus', k))
        doc = refstore.gen_schema(rng, profile={'all_key_types': True})
        rows = sqlgen.gen_population(rng, doc, max_rows=14, exotic=0.3)
        sch = refstore.Schema(doc)
        out = [sqlgen.render_class(c) for c in doc['classes']]
        out += [sqlgen.render_assoc(a) for a in doc['assocs']]
        out += [sqlgen.render_unique(u) for u in doc['uniques']]
        for r in rows:
            st = {'value': rng.randrange(12)}
            m = rng.random()
            if m < 0.3:
                st['named'] = True
            elif m < 0.6:
                st['multiline'] = True
            out.append(sqlgen.render_row(sch.cls(r['kind']), r['values'], st))
        if rng.random() < 0.5:
            rng.shuffle(out)
        files.append(('generated/%d' % k, '\n'.join(out) + '\n'))
    return files


class Corpus(object):
    def __init__(self, files):
        self.files = files
        self.stmts = []             # (file index, statement text)
        self.tables = {}            # KIND -> CREATE TABLE text (first seen)
        for fi, (name, text) in enumerate(files):
            for s in sqlgen.split_statements(text):
                if s.strip():
                    self.stmts.append((fi, s))
                toks = [(k, a, b) for k, a, b in sqlgen.tokenize(s) if k not in ('ws', 'comment')]
                words = [s[a:b].upper() for k, a, b in toks[:3]]
                if words[:2] == ['CREATE', 'TABLE'] and len(toks) > 2:
                    self.tables.setdefault((fi, words[2]), s)
                    self.tables.setdefault((None, words[2]), s)
        self.rows = {}              # (file index, KIND) -> INSERT statements of that class
        for fi, stmt in self.stmts:
            for kd in mentioned_kinds(stmt):
                self.rows.setdefault((fi, kd.upper()), []).append(stmt)
        self.rops = {}              # (file index, KIND) -> CREATE ROP statements naming that class (statement indices)
        for si, (fi, stmt) in enumerate(self.stmts):
            for kd in mentioned_kinds(stmt, rop=True):
                lst = self.rops.setdefault((fi, kd.upper()), [])
                if si not in lst:
                    lst.append(si)
        self.blocks = []
        start = 0
        while start < len(self.stmts):
            fi = self.stmts[start][0]
            end = start
            while end < len(self.stmts) and end - start < BLOCK and self.stmts[end][0] == fi:
                end += 1
            self.blocks.append((start, end))
            start = end

    def table_for(self, fi, kind):
        return self.tables.get((fi, kind.upper())) or self.tables.get((None, kind.upper()))


def mentioned_kinds(stmt, rop=False):
    toks = [(k, stmt[a:b]) for k, a, b in sqlgen.tokenize(stmt) if k not in ('ws', 'comment')]
    words = [t for _, t in toks]
    up = [w.upper() for w in words]
    out = []
    if up[:2] == ['INSERT', 'INTO'] and len(words) > 2 and not rop:
        out.append(words[2])
    if up[:2] == ['CREATE', 'ROP'] and rop:
        for kw in ('FROM', 'TO'):
            if kw in up[2:]:
                i = up.index(kw, 2)
                if i + 2 < len(words):
                    out.append(words[i + 2])
    return out


TAIL = ['\xa0', '\x0b', '\x1c', '\x85', '\u2028', '\u3000 \n', ' \xa0  \n\n', '&', '\\', '\x00', "'", '"', '--', '-']


def enumerate_faults(stmt):
    '''every single-fault site of one statement: list of op dicts (without the statement index)'''
    out = [{'k': 'tail', 'c': c} for c in range(len(TAIL))]
    for pos in range(len(stmt)):
        out.append({'k': 'trunc', 'p': pos})
    toks = [(k, a, b) for k, a, b in sqlgen.tokenize(stmt) if k != 'ws']
    for ti, (k, a, b) in enumerate(toks):
        out.append({'k': 'tok_del', 't': ti})
        out.append({'k': 'tok_dup', 't': ti})
        if ti + 1 < len(toks):
            out.append({'k': 'tok_swap', 't': ti})
        for alt in range(len(FLIP.get(k, []))):
            out.append({'k': 'tok_flip', 't': ti, 'alt': alt})
        for where in sorted(set([a, (a + b - 1) // 2, b - 1])):
            for ci in (0, 1):
                out.append({'k': 'chr_flip', 'p': where, 'c': (where * 7 + ci * 5 + len(stmt)) % len(CHARS)})
    return out


def apply_fault(stmt, f):
    k = f['k']
    if k == 'trunc':
        return stmt[:f['p']]
    if k == 'tail':
        # the first bytes of a torn next record: a stray character closes the text
        return stmt + TAIL[f['c'] % len(TAIL)]
    if k == 'chr_flip':
        p = f['p']
        if p >= len(stmt):
            return None
        ch = CHARS[f['c'] % len(CHARS)]
        if stmt[p] == ch:
            ch = CHARS[(f['c'] + 1) % len(CHARS)]
        return stmt[:p] + ch + stmt[p + 1:]
    toks = [(kk, a, b) for kk, a, b in sqlgen.tokenize(stmt) if kk != 'ws']
    t = f.get('t', 0)
    if t >= len(toks):
        return None
    kk, a, b = toks[t]
    if k == 'tok_del':
        return stmt[:a] + stmt[b:]
    if k == 'tok_dup':
        return stmt[:b] + ' ' + stmt[a:b] + stmt[b:]
    if k == 'tok_swap':
        if t + 1 >= len(toks):
            return None
        _, a2, b2 = toks[t + 1]
        return stmt[:a] + stmt[a2:b2] + stmt[b:a2] + stmt[a:b] + stmt[b2:]
    if k == 'tok_flip':
        alts = FLIP.get(kk, [])
        if f['alt'] >= len(alts):
            return None
        return stmt[:a] + alts[f['alt']] + stmt[b:]
    return None


class LoadFaultEngine(Engine):
    name = 'loadfault'
    props = ('C12',)
    WALL_S = 60.0
    SLOW_S = 2.0

    def setup(self, prop, tier):
        import xtuml
        import xtuml.load
        self.x = xtuml
        self.xload = xtuml.load
        seams.install_entropy()
        self.meter = Meter([build.scratch_dir(), os.path.dirname(os.path.dirname(__import__('ply').__file__)) + '/ply'])
        self.corpus = Corpus(load_corpus(build.REPO))

    def plan(self, prop, tier):
        n = len(self.corpus.blocks)
        if tier == 'quick':
            return {'runs': n, 'chunk': 4, 'wall_cap': 240, 'determinism_runs': 12, 'hard_s': 120}
        return {'runs': n * 2, 'chunk': 2, 'wall_cap': 3000, 'determinism_runs': 24, 'hard_s': 600}

    def describe(self, prop):
        return {
            'level': 'fault_enumeration',
            'evaluations': 'steps',     # an evaluation is one fault site, not one block
            # the thorough tier enumerates every single-fault site of the committed corpus (first pass)
            'exhaustive_in_thorough': True,
            'rule': ('one run = one block of %d consecutive corpus statements (repository SQL/xtUML resources, '
                     'bridgepoint/schema.py texts, %d seeded generated databases); fault sites of a statement: truncation '
                     'after every character, per token delete / duplicate / swap / lexical-class flip / character flips, '
                     'statement drop / duplicate / swap, plus random token soups. Quick tier evaluates a seeded sample of '
                     'the sites of every block, thorough tier every single-fault site (first pass) and seeded double faults '
                     '(second pass). A case is the triple (statement, fault kind, site); it is non-trivial when the damaged '
                     'text differs from the original. distinct_nontrivial counts distinct (damaged chunk) hashes.'
                     % (BLOCK, GENERATED)),
            'components': {
                'real': ['xtuml.load.ModelLoader (PLY lexer/parser tables regenerated from the sources under test, '
                         'statement accumulation, populate_*, deserialize_value)', 'xtuml.meta', 'ply', 'CPython io stack'],
                'stub': ['disk below io.RawIOBase (SimDisk)'],
                'oracle': ['twin loader that never receives the faulty chunk', 'independent tokenizer (sqlgen.tokenize)'],
            },
            'assumptions': [
                'faults are applied to text (characters), not to raw bytes: an invalid UTF-8 sequence is not "a text"',
                'the bounded-time budget is linear in the chunk length with a generous constant; only a confirmed stall is reported',
            ],
        }

    # ------------------------------------------------------------------ generate
    def generate(self, prop, seed, tier, idx):
        cp = self.corpus
        nb = len(cp.blocks)
        b = idx % nb
        second = idx >= nb
        start, end = cp.blocks[b]
        rng = Streams(seed)['faults']
        ops = []
        for si in range(start, end):
            stmt = cp.stmts[si][1]
            sites = enumerate_faults(stmt)
            if tier == 'quick':
                k = min(len(sites), 40)
                sites = rng.sample(sites, k)
            elif second:
                # seeded double faults
                sites = [{'k': 'double', 'f': [rng.choice(sites), rng.choice(sites)]} for _ in range(min(len(sites), 120))]
            for f in sites:
                op = dict(f)
                op['s'] = si
                ops.append(op)
            for k in ('stmt_drop', 'stmt_dup', 'stmt_swap'):
                ops.append({'k': k, 's': si})
        for j in range(6 if tier == 'quick' else 40):
            n = rng.randint(1, 14)
            ops.append({'k': 'soup', 's': start, 'w': [rng.randrange(len(SOUP)) for _ in range(n)]})
        if tier == 'quick' or second:
            rng.shuffle(ops)
        if b % 24 == 3 and not second:
            ops = [{'k': 'odd', 's': start, 'i': i} for i in range(len(ODD))] + ops
        if b % 16 == 0 and not second:
            # pathological repetition probes (unterminated token + long run of one unit), shortest first,
            # before everything else: they find a back-tracking pattern in seconds instead of minutes
            redos = []
            for n in REDOS_N:
                for o in range(len(REDOS_OPEN)):
                    for u in range(len(REDOS_UNIT)):
                        if tier != 'quick' or (o + u + b // 16) % 3 == 0:
                            redos.append({'k': 'redos', 's': start, 'o': o, 'u': u, 'n': n})
            ops = redos + ops
        cfg = {'block': [start, end], 'file': cp.files[cp.stmts[start][0]][0],
               'route_seed': rng.getrandbits(32), 'meter_every': 7 if tier == 'quick' else 11,
               'p_ioerr': 0.02}
        return {'prop': prop, 'engine': self.name, 'seed': seed, 'cfg': cfg, 'ops': ops}

    def sample(self, case):
        s = Engine.sample(self, case)
        s['ops'] = s['ops'][:12]
        return s

    def relax_for_confirmation(self, case):
        case = Engine.relax_for_confirmation(self, case)
        case = dict(case)
        case['cfg'] = dict(case['cfg'])
        case['cfg']['slow_s'] = case['cfg'].get('slow_s', self.SLOW_S) * 3
        return case

    # ------------------------------------------------------------------- execute
    def fresh_pair(self, prefix_chunks):
        x = self.x
        L, T = x.ModelLoader(), x.ModelLoader()
        for ch in prefix_chunks:
            L.input(ch)
            T.input(ch)
        return L, T

    def canon(self, loader):
        '''canonical form of what a loader would build; exceptions are part of the form'''
        x = self.x
        try:
            m = loader.build_metamodel()
        except x.ParsingException as e:
            return ('ParsingException',)
        except x.MetaException as e:
            return (type(e).__name__,)
        return sqlgen.canon_model(x, m)

    def execute(self, case):
        x = self.x
        cp = self.corpus
        cfg = case['cfg']
        log = Log()
        faults, probes = {}, {}
        states = set()
        start, end = cfg['block']
        fi = cp.stmts[start][0]
        rrng = random.Random(cfg['route_seed'])
        disk = SimDisk(random.Random(cfg['route_seed'] ^ 0xd15c))
        disk.short_read = True
        saved_open = getattr(self.xload, 'open', None)
        self.xload.open = disk.open
        guard = WallGuard()
        guard.arm(cfg.get('wall_s', self.WALL_S))
        violation = None
        step = -1
        lines = 0

        def bump(d, k, n=1):
            d[k] = d.get(k, 0) + n

        # prefix: the tables of the classes the block inserts into, plus the first intact statement of the block
        kinds = []
        for si in range(start, end):
            for kd in mentioned_kinds(cp.stmts[si][1]):
                if kd.upper() not in [q.upper() for q in kinds]:
                    kinds.append(kd)
        prefix = [t for t in (cp.table_for(fi, kd) for kd in kinds) if t]
        # ... and the (intact) associations of those classes with the tables of their other ends, so that a damaged
        # row meets referential attributes, links and cardinality checks when the loader builds
        for kd in list(kinds):
            for si in cp.rops.get((fi, kd.upper()), [])[:3]:
                if start <= si < end:
                    continue
                others = [o for o in mentioned_kinds(cp.stmts[si][1], rop=True)]
                tabs = [cp.table_for(fi, o) for o in others]
                if not all(tabs):
                    continue
                for o, t in zip(others, tabs):
                    if o.upper() not in [q.upper() for q in kinds]:
                        kinds.append(o)
                        prefix.append(t)
                if cp.stmts[si][1] not in prefix:
                    prefix.append(cp.stmts[si][1])
        # classes named by the associations of the block: their tables and a few of their rows, so that an
        # accepted (damaged) association is actually populated when the loader builds
        for si in range(start, end):
            for kd in mentioned_kinds(cp.stmts[si][1], rop=True):
                if kd.upper() not in [q.upper() for q in kinds]:
                    kinds.append(kd)
                    t = cp.table_for(fi, kd)
                    if t:
                        prefix.append(t)
                        prefix.extend(cp.rows.get((fi, kd.upper()), [])[:2])
        prefix = [''.join(prefix)] if prefix else []
        try:
            L, T = self.fresh_pair(prefix)
            base = self.canon(T)
            if self.canon(L) != base:
                raise Violation('twin', 'two loaders fed the same prefix build different metamodels', 'twin')
            since_sync = 0
            for step, op in enumerate(case['ops']):
                chunk, damaged = self.make_chunk(cp, op, start, end)
                if chunk is None:
                    continue
                bump(faults, 'F2_' + op['k'])
                states.add(stable_hash(chunk))
                route = rrng.choice(['input', 'input', 'file_input', 'filename_input'])
                ioerr = route != 'input' and rrng.random() < cfg.get('p_ioerr', 0)
                metered = (step % cfg.get('meter_every', 7) == 0) and self.meter.available
                budget = 60000 + 4000 * len(chunk)
                outcome = None
                t_in = time.perf_counter()
                try:
                    if metered:
                        self.meter.start(budget)
                    try:
                        if route == 'input':
                            L.input(chunk, 'faulty')
                        else:
                            path = '/f/%d.sql' % step
                            disk.put(path, chunk)
                            disk.restart()
                            if ioerr:
                                disk.read_error_at = 1 + rrng.randrange(2)
                            if route == 'file_input':
                                with disk.open(path, 'r', newline='') as f:
                                    L.file_input(f)
                            else:
                                L.filename_input(path)
                            disk.read_error_at = None
                    finally:
                        if metered:
                            lines += self.meter.stop()
                    outcome = 'accepted'
                except x.ParsingException:
                    outcome = 'rejected'
                except OSError as e:
                    if not disk.fired.get('F5_io_error_read'):
                        raise Violation('input-exception', 'input raised OSError without an injected I/O error: %s' % e,
                                        'input-exception:OSError')
                    outcome = 'ioerror'
                    disk.fired.pop('F5_io_error_read', None)
                    bump(faults, 'F5_io_error_read')
                except (Violation, SimStall):
                    raise
                except Exception as e:
                    raise Violation('input-exception', 'fault %r: input raised %s: %s -- chunk %r'
                                    % (op, type(e).__name__, e, chunk[-200:]),
                                    'input-exception:%s' % type(e).__name__)
                bump(probes, '%s_%s' % (op['k'], outcome))
                dt = time.perf_counter() - t_in
                if dt > cfg.get('slow_s', self.SLOW_S) * (2 if metered else 1):     # line metering slows python code down
                    raise Violation('stall', 'fault %r: input of %d characters took %.1f s of wall time (budget %.1f s)'
                                    % (op, len(chunk), dt, cfg.get('slow_s', self.SLOW_S)), 'stall:wall')
                if outcome in ('rejected', 'ioerror'):
                    # as if the call had not happened
                    got = self.canon(L)
                    if got != base:
                        raise Violation('half-applied', 'fault %r: the rejected input changed what the loader builds '
                                        '(statements now %d, twin %d): %s -- chunk %r'
                                        % (op, len(L.statements), len(T.statements), diff_any(base, got), chunk[-200:]),
                                        'half-applied')
                    since_sync += 1
                    if since_sync >= 10:
                        since_sync = 0
                        # later inputs behave as if the rejected calls had not happened -- diagnostics included:
                        # the same malformed text must be rejected with the same message by the loader and its twin
                        msgs = []
                        for ld in (L, T):
                            try:
                                ld.input(PROBE, 'probe')
                                msgs.append('accepted')
                            except x.ParsingException as e:
                                msgs.append(str(e))
                        if msgs[0] != msgs[1]:
                            raise Violation('half-applied', 'after rejected inputs the loader reports a later malformed '
                                            'text differently from a loader that never saw them: %r vs %r' % tuple(msgs),
                                            'half-applied:diagnostics')
                        bump(probes, 'diagnostics_compared')
                        sfx = cp.stmts[rrng.randrange(start, end)][1]
                        try:
                            L.input(sfx)
                            T.input(sfx)
                        except x.ParsingException:
                            raise Violation('twin', 'an intact corpus statement was rejected: %r' % sfx[:200], 'twin:intact')
                        base = self.canon(T)
                        got = self.canon(L)
                        if got != base:
                            raise Violation('half-applied', 'after a common suffix the loader and its twin build '
                                            'different metamodels: %s' % diff_any(base, got), 'half-applied:suffix')
                        bump(probes, 'suffix_compared')
                else:
                    # accepted: building must succeed or fail in a documented way
                    try:
                        if metered:
                            self.meter.start(400000 + 20000 * len(L.statements) + 4000 * len(chunk))
                        try:
                            L.build_metamodel()
                        finally:
                            if metered:
                                lines += self.meter.stop()
                        bump(probes, 'build_ok')
                    except x.ParsingException:
                        bump(probes, 'build_ParsingException')
                    except x.MetaException:
                        bump(probes, 'build_MetaException')
                    except (Violation, SimStall):
                        raise
                    except Exception as e:
                        import traceback
                        tb = traceback.extract_tb(e.__traceback__)
                        where = '%s:%d' % (tb[-1].filename.rsplit('/', 1)[-1], tb[-1].lineno)
                        raise Violation('build-exception', 'fault %r: build_metamodel raised %s: %s at %s -- chunk %r'
                                        % (op, type(e).__name__, e, where, chunk[-300:]),
                                        'build-exception:%s:%s' % (type(e).__name__, where))
                    L, T = self.fresh_pair(prefix)
                    base = self.canon(T)
                    since_sync = 0
                log.event(step, op['k'], route, outcome)
        except Violation as v:
            violation = v.as_dict(step)
        except SimStall as s:
            op = case['ops'][step] if 0 <= step < len(case['ops']) else None
            violation = Violation('stall', 'fault %r: loading did not finish: %s' % (op, s),
                                  'stall:%s' % s.kind).as_dict(step)
        finally:
            guard.disarm()
            if saved_open is None:
                try:
                    del self.xload.open
                except AttributeError:
                    pass
            else:
                self.xload.open = saved_open
            self.meter.total = 0
        for k, v in disk.fired.items():
            bump(faults, k, v)
        if violation:
            log.event('violation', violation['oracle'])
        return {'violation': violation, 'digest': log.hexdigest(), 'steps': step + 1, 'faults': faults,
                'probes': probes, 'states': states, 'nontrivial': bool(states), 'lines': lines}

    def make_chunk(self, cp, op, start, end):
        '''(text fed to the loader, damaged statement) -- intact context statements first'''
        si = op['s']
        if not (start <= si < end):
            return None, None
        stmt = cp.stmts[si][1]
        k = op['k']
        ctx = [cp.stmts[j][1] for j in range(max(start, si - 2), si)]
        if k == 'odd':
            damaged = ODD[op['i'] % len(ODD)]
            return damaged, damaged
        if k == 'redos':
            damaged = REDOS_OPEN[op['o']] + REDOS_UNIT[op['u']] * op['n']
            return ''.join(ctx[-1:]) + '\n' + damaged, damaged
        if k == 'soup':
            damaged = ' '.join(SOUP[i % len(SOUP)] for i in op['w'])
            return ''.join(ctx[-1:]) + '\n' + damaged, damaged
        if k == 'stmt_drop':
            if si + 1 >= end:
                return None, None
            # a lost write: the statement disappears, its neighbours are joined at a torn position
            nxt = cp.stmts[si + 1][1]
            damaged = stmt[:len(stmt) // 2] + nxt[len(nxt) // 2:]
            return ''.join(ctx) + damaged, damaged
        if k == 'stmt_dup':
            damaged = stmt + stmt[:max(1, len(stmt) // 3)]
            return ''.join(ctx) + damaged, damaged
        if k == 'stmt_swap':
            if si + 1 >= end:
                return None, None
            nxt = cp.stmts[si + 1][1]
            h = len(stmt) // 2
            damaged = stmt[:h] + nxt + stmt[h:]
            return ''.join(ctx) + damaged, damaged
        if k == 'double':
            damaged = stmt
            for f in op['f']:
                d2 = apply_fault(damaged, f)
                if d2 is not None:
                    damaged = d2
        else:
            damaged = apply_fault(stmt, op)
        if damaged is None or damaged == stmt:
            return None, None
        return ''.join(ctx) + damaged, damaged

    def reach_missing(self, prop, tier, probes, faults):
        missing = []
        for k in ('trunc', 'tok_del', 'tok_dup', 'tok_swap', 'tok_flip', 'chr_flip', 'soup'):
            if not probes.get(k + '_accepted'):
                missing.append(k + '_accepted')
            if not probes.get(k + '_rejected'):
                missing.append(k + '_rejected')
        for k in ('build_ok', 'build_ParsingException', 'build_MetaException', 'suffix_compared', 'diagnostics_compared'):
            if not probes.get(k):
                missing.append(k)
        if not faults.get('F5_io_error_read'):
            missing.append('F5_io_error_read')
        return missing


def diff_any(a, b):
    if isinstance(a, tuple) or isinstance(b, tuple):
        return '%r vs %r' % (a if isinstance(a, tuple) else 'model', b if isinstance(b, tuple) else 'model')
    for k in ('schema', 'ids'):
        if a[k] != b[k]:
            return '%s differs' % k
    for k in sorted(set(a['classes']) | set(b['classes'])):
        if a['classes'].get(k) != b['classes'].get(k):
            return 'instances of %s: %r vs %r' % (k, a['classes'].get(k), b['classes'].get(k))
    return 'links differ'


ENGINE = LoadFaultEngine()
