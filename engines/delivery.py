'''
Engine `delivery` -- property C03, and the loading / command-line half of C11
(DESIGN.md §4).

A seeded schema and population (stored referential values, null / duplicate /
dangling / partially matching keys) is rendered by an independent renderer
into statements.  Fault kind F3: a *delivery plan* permutes the statements,
cuts them into chunks and routes every chunk to the loader through one of
input(str), file_input(file object), filename_input(file), a directory tree of
.xtuml files (listing order owned by the simulated file system, decoy files
present) or a zip archive (member order seeded) -- the last two through the
real bridgepoint.ooaofooa.ModelLoader.filename_input.  All files live on the
simulated disk below the real io stack (short reads always on, F6).

Oracles: (1) links of the built metamodel = the join *by definition*; every
referential attribute reads as the identifying value of a linked instance,
unset otherwise; non-referential values survive.  (2) k >= 3 different plans
of the same statements give the same canonical metamodel.  (3) creating the
rows through MetaModel.new with referential values (referred rows first), and
cloning them into a fresh metamodel, give the same links -- on populations
where the API documents no rejection.
'''
import posixpath
import random

from sim.engine import Engine, Log, Violation, stable_hash
from sim.meter import SimStall, WallGuard
from sim.rng import Streams, weighted, h64
from sim import seams, build
from sim.disk import SimDisk, OsShim, ZipShim, write_zip
from engines import refstore, sqlgen
from engines.store import build_model

MARK = 'Row_'
ROUTES = ('input', 'file_input', 'filename_input', 'dir', 'zip')


def add_marker(schema_doc, rng=None):
    for c in schema_doc['classes']:
        if rng is not None and rng.random() < 0.3:
            c['attrs'].insert(0, [MARK, 'INTEGER'])     # first column: rows of this class may stop early
        else:
            c['attrs'].append([MARK, 'INTEGER'])
    return schema_doc


class Delivery(object):
    '''Delivers statement texts to a loader according to a plan; owns one SimDisk.'''
    def __init__(self, xtuml, plan_seed, faults):
        import bridgepoint.ooaofooa as ooa
        import xtuml.load as xload
        self.x = xtuml
        self.ooa = ooa
        self.xload = xload
        self.rng = random.Random(plan_seed)
        self.disk = SimDisk(random.Random(plan_seed ^ 0x5eed))
        self.disk.short_read = True
        self.disk.buffer_size = self.rng.choice([None, 16, 64, 509, 4096])
        self.faults = faults
        self.n = 0

    def install(self):
        self._saved = (getattr(self.xload, 'open', None), self.ooa.os, self.ooa.zipfile)
        self.xload.open = self.disk.open
        self.ooa.os = OsShim(self.disk, self._saved[1])
        self.ooa.zipfile = ZipShim(self.disk)

    def uninstall(self):
        o, os_, z = self._saved
        if o is None:
            del self.xload.open
        else:
            self.xload.open = o
        self.ooa.os = os_
        self.ooa.zipfile = z

    def bump(self, k, n=1):
        self.faults[k] = self.faults.get(k, 0) + n

    def deliver(self, loader, chunks, routes):
        '''chunks: list of list of statement texts; routes[i] in ROUTES'''
        rng = self.rng
        x = self.x
        i = 0
        while i < len(chunks):
            route = routes[i % len(routes)]
            self.n += 1
            if route in ('dir', 'zip'):
                # a directory or archive swallows the next 1-3 chunks as separate .xtuml files
                take = chunks[i:i + rng.randint(1, 3)]
                i += len(take)
                members = []
                same_name = rng.random() < 0.3
                for j, ch in enumerate(take):
                    depth = rng.randint(0, 2)
                    sub = '/'.join('d%d' % rng.randint(0, 2) for _ in range(depth))
                    if same_name:
                        # the BridgePoint layout <pkg>/<pkg>.xtuml: equal file names in different directories
                        name = posixpath.join('p%d' % j, sub, 'types.xtuml')
                    else:
                        name = posixpath.join(sub, 'm%d_%d.xtuml' % (self.n, j))
                    members.append((name, self.text_of(ch)))
                decoys = [('readme.txt', 'this is not a model;'), ('x.xtuml.bak', 'INSERT INTO NOPE VALUES (1);'),
                          ('sub/notes.sql', 'CREATE TABLE NOPE2 (X INTEGER);')]
                members += rng.sample(decoys, rng.randint(0, len(decoys)))
                rng.shuffle(members)
                if route == 'dir':
                    root = '/in/tree%d' % self.n
                    self.disk.mkdirs(root)
                    for name, text in members:
                        self.disk.put(posixpath.join(root, name), text)
                    self.ooa.ModelLoader.filename_input(loader, root)
                else:
                    path = '/in/arch%d.zip' % self.n
                    write_zip(self.disk, path, members)
                    self.ooa.ModelLoader.filename_input(loader, path)
                self.bump('F3_route_' + route)
                continue
            text = self.text_of(chunks[i])
            i += 1
            if route == 'input':
                loader.input(text, 'chunk%d' % self.n)
            elif route == 'file_input':
                path = '/in/f%d.sql' % self.n
                self.disk.put(path, text)
                with self.disk.open(path, 'r', newline='') as f:
                    loader.file_input(f)
            else:
                path = '/in/g%d.sql' % self.n
                self.disk.put(path, text)
                if rng.random() < 0.5:
                    loader.filename_input(path)
                else:
                    self.ooa.ModelLoader.filename_input(loader, path)
            self.bump('F3_route_' + route)
        for k, v in self.disk.fired.items():
            self.bump(k, v)
        self.disk.fired.clear()

    def text_of(self, stmts):
        rng = self.rng
        sep = rng.choice(['\n', '\n\n', ' ', '\n-- a comment; with ''quotes''\n', '\r\n'])
        return sep.join(stmts) + rng.choice(['', '\n', '\n-- trailing comment'])


def make_plan(plan_seed, n):
    '''permutation, cuts and routes for n statements: a pure function of (plan_seed, n)'''
    rng = random.Random(h64('plan', plan_seed, n))
    perm = list(range(n))
    mode = rng.random()
    if mode < 0.15:
        pass                                # the "natural" order
    elif mode < 0.3:
        perm.reverse()
    else:
        rng.shuffle(perm)
    k = rng.randint(1, min(8, max(1, n)))
    cuts = sorted(rng.sample(range(1, n), min(k - 1, max(0, n - 1)))) if n > 1 else []
    routes = [rng.choice(ROUTES) for _ in range(rng.randint(1, 5))]
    return perm, cuts, routes


def chunked(items, cuts):
    out = []
    prev = 0
    for c in list(cuts) + [len(items)]:
        if c > prev:
            out.append(items[prev:c])
        prev = c
    return out


class DeliveryEngine(Engine):
    name = 'delivery'
    props = ('C03',)
    WALL_S = 20.0

    def setup(self, prop, tier):
        import xtuml
        self.x = xtuml
        seams.install_entropy()

    def plan(self, prop, tier):
        if tier == 'quick':
            return {'runs': 20000, 'chunk': 100, 'wall_cap': 200, 'determinism_runs': 40}
        return {'runs': 600000, 'chunk': 500, 'wall_cap': 2400, 'determinism_runs': 600}

    def describe(self, prop):
        return {
            'level': 'exploration',
            'rule': ('per run one seeded schema (single/multi-attribute keys of every core type, shared and chained '
                     'referential attributes, reflexive, association class, subtype) and population (null, duplicate, '
                     'dangling and partially matching keys), delivered 3-4 times under different seeded plans '
                     '(permutation x partition x route per chunk: input / file_input / filename_input / directory tree / '
                     'zip archive on the simulated disk). An evaluation is one run; a case is distinct by the hash of '
                     '(statements, plans) and non-trivial when the expected join holds at least one link and at least two '
                     'different routes or orders were used. distinct_nontrivial counts those.'),
            'components': {
                'real': ['xtuml.load.ModelLoader (lexer, parser, populate_*)', 'xtuml.meta', 'xtuml.persist.serialize_*',
                         'bridgepoint.ooaofooa.ModelLoader.filename_input (file / directory walk / zip members)',
                         'CPython io.TextIOWrapper / BufferedReader, zipfile'],
                'stub': ['disk below io.RawIOBase (SimDisk)', 'os.walk / os.path.isdir listing order', 'uuid.uuid4'],
                'oracle': ['nested-loop join over the generated rows (sqlgen.expected_pairs)'],
            },
            'assumptions': [
                'instance order inside a pool legitimately follows statement order and is not compared across plans',
                'classes without CREATE TABLE (inferred schema) are only generated outside associations: the loader resolves association ends before instances',
                'the API route is compared only on populations for which the API documents no rejection (no cardinality overflow) and whose null referential values match no referred row',
            ],
        }

    # ------------------------------------------------------------------ generate
    def generate(self, prop, seed, tier, idx):
        st = Streams(seed)
        sw = st['swarm']
        profile = {'all_key_types': True, 'p_unique': 0.9, 'max_shapes': sw.choice([1, 2, 3, 4]),
                   'id_types': sw.choice([['unique_id'], ['unique_id', 'integer', 'string'],
                                          ['integer', 'string', 'unique_id', 'unique_id']])}
        schema = refstore.gen_schema(st['schema'], want=sw.choice([[], [], ['multi_key'], ['shared_ref'], ['reflexive'],
                                                                   ['subsuper'], ['assoc_class'], ['chain_key']]),
                                     profile=profile)
        add_marker(schema, st['marker'])
        clean = sw.random() < 0.35
        rows = sqlgen.gen_population(st['population'], schema, max_rows=sw.choice([6, 12, 30]),
                                     p_null=0.0 if clean else sw.choice([0.0, 0.15, 0.3]),
                                     p_dangling=0.0 if clean else sw.choice([0.0, 0.15]),
                                     p_dup=0.0 if clean else sw.choice([0.0, 0.15, 0.3]),
                                     exotic=sw.choice([0.0, 0.1]), resolvable=clean and sw.random() < 0.7)
        for r in rows:
            r['values'][MARK] = r['row']
        if prop == 'C03' and schema['assocs'] and st['marker'].random() < 0.04:
            # one association is left unformalized (written with empty key lists, as serialize_association writes an
            # association that has none): its former key columns are plain attributes, nothing is linked across it
            a = st['marker'].choice(schema['assocs'])
            for k in ('src_keys', 'tgt_keys'):
                a[k] = []
            for k in ('src_keys_as', 'tgt_keys_as'):
                a.pop(k, None)
        rng = st['ops']
        sch = refstore.Schema(schema)
        in_assoc = set()
        for a in schema['assocs']:
            in_assoc |= {a['src'].upper(), a['tgt'].upper()}
        inferred = [c['kind'] for c in schema['classes']
                    if c['kind'].upper() not in in_assoc and sw.random() < 0.5]
        ops = []
        for i, c in enumerate(schema['classes']):
            if c['kind'] not in inferred:
                ops.append({'t': 'class', 'i': i})
        for i in range(len(schema['assocs'])):
            ops.append({'t': 'assoc', 'i': i})
        for i in range(len(schema['uniques'])):
            if schema['uniques'][i]['kind'] not in inferred:
                ops.append({'t': 'unique', 'i': i})
        class_style = {}
        for c in schema['classes']:
            n = len(c['attrs'])
            order = list(range(n))
            rng.shuffle(order)
            class_style[c['kind']] = {'column_order': order}
        for r in rows:
            style = {'value': rng.randrange(12)}
            refs = sch.referential(r['kind'])
            if r['kind'] in inferred:
                style.update(named=True, value=1, column_order=class_style[r['kind']]['column_order'])
            else:
                m = rng.random()
                if m < 0.3:
                    style['named'] = True
                    if rng.random() < 0.5:
                        order = list(range(len(sch.attrs(r['kind']))))
                        rng.shuffle(order)
                        style['column_order'] = order
                    style['lower'] = rng.random() < 0.3
                    if rng.random() < 0.3:
                        # explicit column list that leaves columns out: they read as unset
                        names = [n for n, _ in sch.attrs(r['kind']) if n != MARK]
                        style['omit'] = rng.sample(names, rng.randint(1, max(1, len(names) // 2))) if names else []
                elif m < 0.5:
                    style['multiline'] = True
                elif m < 0.62 and sch.attrs(r['kind'])[0][0] == MARK:
                    # a positional row that stops early ("schema mismatch", accepted): the missing columns hold the
                    # default of their type, missing referential ones are unset.  Ids are not left to the generator.
                    attrs = sch.attrs(r['kind'])
                    k = 0
                    while k < len(attrs) - 1 and (attrs[-1 - k][0] in refs or attrs[-1 - k][1].upper() != 'UNIQUE_ID'):
                        k += 1
                    if k:
                        style['short'] = rng.randint(1, k)
            ops.append({'t': 'row', 'i': r['row'], 'style': style})
        cfg = {'schema': schema, 'rows': rows, 'inferred': inferred,
               'plans': [st['sched'].getrandbits(48) for _ in range(sw.choice([3, 3, 4]))],
               'api': sw.random() < 0.6, 'public_loader': sw.random() < 0.02}
        return {'prop': prop, 'engine': self.name, 'seed': seed, 'cfg': cfg, 'ops': ops}

    def sample(self, case):
        s = Engine.sample(self, case)
        s['cfg'] = {'classes': [c['kind'] for c in case['cfg']['schema']['classes']],
                    'assocs': len(case['cfg']['schema']['assocs']), 'rows': len(case['cfg']['rows']),
                    'plans': case['cfg']['plans'], 'inferred': case['cfg']['inferred']}
        return s

    # ------------------------------------------------------------------- execute
    def statements(self, case):
        '''(texts, kept rows with effective values, schema restricted to the statements present)'''
        cfg = case['cfg']
        schema = cfg['schema']
        sch = refstore.Schema(schema)
        rows_by_id = {r['row']: r for r in cfg['rows']}
        texts = []
        rows = []
        have_class = set(cfg['inferred'])
        for op in case['ops']:
            if op['t'] == 'class':
                have_class.add(schema['classes'][op['i']]['kind'])
        assoc_idx = []
        for op in case['ops']:
            t = op['t']
            if t == 'class':
                texts.append(sqlgen.render_class(schema['classes'][op['i']]))
            elif t == 'assoc':
                a = schema['assocs'][op['i']]
                if a['src'] in have_class and a['tgt'] in have_class and a['src'] not in cfg['inferred'] \
                        and a['tgt'] not in cfg['inferred']:
                    texts.append(sqlgen.render_assoc(a))
                    assoc_idx.append(op['i'])
            elif t == 'unique':
                u = schema['uniques'][op['i']]
                if u['kind'] in have_class:
                    texts.append(sqlgen.render_unique(u))
            elif t == 'row':
                r = rows_by_id[op['i']]
                if r['kind'] not in have_class:
                    continue
                c = sch.cls(r['kind'])
                style = op['style']
                vals = dict(r['values'])
                if style.get('omit') and style.get('named'):
                    cc = {'kind': c['kind'], 'attrs': [a for a in c['attrs'] if a[0] not in style['omit']]}
                    st2 = dict(style)
                    st2.pop('column_order', None)
                    texts.append(sqlgen.render_row(cc, vals, st2))
                    for n in style['omit']:
                        vals[n] = None
                elif style.get('short'):
                    keep = c['attrs'][:len(c['attrs']) - style['short']]
                    cc = {'kind': c['kind'], 'attrs': keep}
                    texts.append(sqlgen.render_row(cc, vals, style))
                    refs = sch.referential(c['kind'])
                    for n, ty in c['attrs'][len(keep):]:
                        vals[n] = None if n in refs else refstore.type_default(ty)
                else:
                    texts.append(sqlgen.render_row(c, vals, style))
                rows.append({'kind': r['kind'], 'row': r['row'], 'values': vals})
        return texts, rows, assoc_idx

    def execute(self, case):
        x = self.x
        cfg = case['cfg']
        log = Log()
        faults, probes = {}, {}
        states = set()
        guard = WallGuard()
        guard.arm(cfg.get('wall_s', self.WALL_S))
        violation = None
        step = -1
        self.unformalized = None
        try:
            texts, rows, assoc_idx = self.statements(case)
            schema = dict(cfg['schema'])
            schema = {'classes': schema['classes'], 'uniques': schema['uniques'],
                      'assocs': [schema['assocs'][i] for i in assoc_idx]}
            sch = refstore.Schema(schema)
            expected = sqlgen.expected_pairs(schema, rows)
            nlinks = sum(len(p) for p in expected)
            canons = []
            used_routes = set()
            for step, plan_seed in enumerate(cfg['plans']):
                perm, cuts, routes = make_plan(plan_seed, len(texts))
                d = Delivery(x, plan_seed, faults)
                d.install()
                try:
                    if cfg.get('public_loader') and step == 0:
                        # the public BridgePoint loader: the same statements next to the ooaofooa schema
                        import bridgepoint
                        loader = bridgepoint.ModelLoader(load_globals=False)
                        probes['public_bridgepoint_loader'] = probes.get('public_bridgepoint_loader', 0) + 1
                    else:
                        loader = x.ModelLoader()
                    d.deliver(loader, chunked([texts[i] for i in perm], cuts), routes)
                finally:
                    d.uninstall()
                used_routes |= set(routes)
                m = loader.build_metamodel()
                self.check_join(x, m, schema, sch, rows, expected, probes, 'plan %d' % step)
                canons.append((plan_seed, sqlgen.canon_model(x, m, order_free=True, marker=MARK)))
                log.event('plan', step, perm[:12], cuts, routes)
            if cfg.get('public_loader') and canons:
                # the first build also holds the (empty) ooaofooa classes: compare the classes of this schema only
                first = canons[0][1]
                mine = set(c['kind'].upper() for c in schema['classes'])
                keep = lambda stmts: [t for t in stmts if any((' %s ' % k) in t.upper().replace('(', ' (') for k in mine)]
                canons[0] = (canons[0][0], {'schema': keep(first['schema']), 'ids': keep(first['ids']),
                                            'classes': {k: v for k, v in first['classes'].items() if k in mine},
                                            'links': {k: v for k, v in first['links'].items()
                                                      if k.split(':', 1)[1].split('(')[0].upper() in mine}})
                for j in range(1, len(canons)):
                    cj = canons[j][1]
                    canons[j] = (canons[j][0], dict(cj, schema=keep(cj['schema']), ids=keep(cj['ids'])))
            for (p0, c0), (p1, c1) in zip(canons, canons[1:]):
                if c0 != c1:
                    raise Violation('delivery', 'plans %d and %d of the same statements built different metamodels: %s'
                                    % (p0, p1, diff_canon(c0, c1)), 'delivery-invariance')
            if cfg.get('api') and canons:
                step = len(cfg['plans'])
                self.check_api(x, schema, sch, rows, expected, probes, m)
            if canons:
                log.event('canon', stable_hash(canons[0][1]))
            if self.unformalized:
                raise Violation('join', self.unformalized, 'join:unformalized')
            if nlinks and len(used_routes) >= 2:
                states.add(stable_hash((texts, cfg['plans'])))
            for i, a in enumerate(schema['assocs']):
                if len(a['src_keys']) > 1 and expected[i]:
                    probes['multi_key_link'] = probes.get('multi_key_link', 0) + 1
        except Violation as v:
            violation = v.as_dict(step)
        except SimStall as s:
            violation = Violation('stall', 'loading did not return: %s' % s).as_dict(step)
        except Exception as ex:
            import traceback
            tb = traceback.extract_tb(ex.__traceback__)
            inside = [f for f in tb if '/xtuml/' in f.filename or '/bridgepoint/' in f.filename or '/ply/' in f.filename]
            if not inside:
                raise
            where = '%s:%d' % (inside[-1].filename.rsplit('/', 1)[-1], inside[-1].lineno)
            violation = Violation('exception', 'unexpected %s: %s at %s (plan %d)' % (type(ex).__name__, ex, where, step),
                                  'exception:%s:%s' % (type(ex).__name__, where)).as_dict(step)
        finally:
            guard.disarm()
        if violation:
            log.event('violation', violation['oracle'])
        return {'violation': violation, 'digest': log.hexdigest(), 'steps': max(step + 1, 0), 'faults': faults,
                'probes': probes, 'states': states, 'nontrivial': bool(states), 'lines': 0}

    def check_join(self, x, m, schema, sch, rows, expected, probes, where, unset_as_null=False):
        '''oracle (1): links = join by definition; referential reads; plain values'''
        by_row = {}
        for c in schema['classes']:
            try:
                insts = m.select_many(c['kind'])
            except x.UnknownClassException:
                continue
            for inst in insts:
                by_row[getattr(inst, MARK)] = inst
        rowids = {id(v): k for k, v in by_row.items()}
        for r in rows:
            if r['row'] not in by_row:
                raise Violation('rows', '%s: row %d of %s was not loaded' % (where, r['row'], r['kind']), 'rows:missing')
        if len(by_row) != len(rows):
            raise Violation('rows', '%s: %d instances loaded from %d rows' % (where, len(by_row), len(rows)), 'rows:extra')
        for i, a in enumerate(schema['assocs']):
            got = set()
            back = set()
            for r in rows:
                if r['kind'].upper() == a['src'].upper():
                    for other in x.navigate_many(by_row[r['row']]).nav(a['tgt'], a['rel'], a['src_phrase'])():
                        got.add((r['row'], rowids.get(id(other), 'foreign')))
                if r['kind'].upper() == a['tgt'].upper():
                    for other in x.navigate_many(by_row[r['row']]).nav(a['src'], a['rel'], a['tgt_phrase'])():
                        back.add((rowids.get(id(other), 'foreign'), r['row']))
            if not a['src_keys'] and (got != expected[i] or back != expected[i]):
                # the answer of the implementation for an association without keys is a known finding: noted, and
                # raised by execute() after everything else of this run has been checked
                self.unformalized = ('%s: R%d %s()->%s(): %d links across an association without key attributes, e.g. %s'
                                     % (where, a['rel'], a['src'], a['tgt'], len(got), sorted(got, key=repr)[:4]))
                continue
            if got != expected[i] or back != expected[i]:
                missing = sorted(expected[i] - got)[:5]
                extra = sorted(got - expected[i], key=repr)[:5]
                asym = sorted(got ^ back, key=repr)[:5]
                detail = describe_pairs(a, rows, missing, extra)
                raise Violation('join', '%s: R%d %s(%s)->%s(%s): missing links %s, extra links %s, one-way %s; %s'
                                % (where, a['rel'], a['src'], ','.join(a['src_keys']), a['tgt'], ','.join(a['tgt_keys']),
                                   missing, extra, asym, detail),
                                'join:%s' % ('missing' if missing else 'extra' if extra else 'asymmetric'))
            n_over = 0
            for r in rows:
                if r['kind'].upper() == a['tgt'].upper() and not a['src_many'] and \
                        len([p for p in expected[i] if p[1] == r['row']]) > 1:
                    n_over += 1
            if n_over:
                probes['overpopulated_end'] = probes.get('overpopulated_end', 0) + 1
        # attribute reads
        for r in rows:
            inst = by_row[r['row']]
            refs = sch.referential(r['kind'])
            for name, ty in sch.attrs(r['kind']):
                v = getattr(inst, name)
                if name in refs:
                    allowed = []
                    for i, a in enumerate(schema['assocs']):
                        if a['src'].upper() == r['kind'].upper() and name in a['src_keys']:
                            tk = a['tgt_keys'][a['src_keys'].index(name)]
                            for s_, t_ in expected[i]:
                                if s_ == r['row']:
                                    allowed.append(getattr(by_row[t_], tk))
                    if not allowed:
                        allowed = [None]
                        probes['unlinked_referential'] = probes.get('unlinked_referential', 0) + 1
                    if sqlgen.cv(v) not in [sqlgen.cv(c) for c in allowed]:
                        raise Violation('referential', '%s: row %d %s.%s reads %r; identifying values of its linked instances: %r'
                                        % (where, r['row'], r['kind'], name, v, allowed), 'referential')
                else:
                    want = r['values'][name]
                    if ty.upper() == 'REAL' and want is not None:
                        want = float('%f' % want)
                    if want is None and unset_as_null:
                        want = refstore.null_of(ty) if ty.upper() != 'UNIQUE_ID' else v
                    if sqlgen.cv(v) != sqlgen.cv(want):
                        raise Violation('value', '%s: row %d %s.%s reads %r, the statement carried %r'
                                        % (where, r['row'], r['kind'], name, v, want), 'value')

    def api_eligible(self, schema, sch, rows, expected):
        order = topo_rows(schema, rows, expected)
        if order is None:
            return None, 'cyclic'
        for i, a in enumerate(schema['assocs']):
            for r in rows:
                if r['kind'].upper() == a['tgt'].upper() and not a['src_many'] and \
                        len([p for p in expected[i] if p[1] == r['row']]) > 1:
                    return None, 'overflow'
                if r['kind'].upper() == a['src'].upper() and not a['tgt_many'] and \
                        len([p for p in expected[i] if p[0] == r['row']]) > 1:
                    return None, 'overflow'
        # an unset key cannot be expressed as a constructor argument (omitting it yields the typed default)
        for a in schema['assocs']:
            for r in rows:
                if r['kind'].upper() == a['src'].upper() and any(r['values'][k] is None for k in a['src_keys']):
                    return None, 'unset-key'
                if r['kind'].upper() == a['tgt'].upper() and any(r['values'][k] is None for k in a['tgt_keys']):
                    return None, 'unset-key'
        for c in schema['classes']:
            refs = sch.referential(c['kind'])
            if any(n in sch.identifying(c['kind']) for n in refs):
                return None, 'referential-identifier'
        return order, None

    def check_api(self, x, schema, sch, rows, expected, probes, loaded):
        '''oracle (3): same rows through MetaModel.new with referential values, and through clone'''
        order, why = self.api_eligible(schema, sch, rows, expected)
        if order is None:
            probes['api_skipped_' + why] = probes.get('api_skipped_' + why, 0) + 1
            return
        by_row = {r['row']: r for r in rows}
        phrased = [i for i, a in enumerate(schema['assocs'])
                   if (a['src_phrase'] or a['tgt_phrase']) and expected[i]]
        try:
            self._check_api(x, schema, sch, rows, expected, probes, loaded, order, by_row)
        except Violation as v:
            if phrased:
                v.signature = 'api-phrased:' + v.signature
            raise
        except x.MetaException as e:
            if phrased:
                raise Violation('join', 'API route raised %s: %s' % (type(e).__name__, e),
                                'api-phrased:exception:%s' % type(e).__name__)
            raise

    def _check_api(self, x, schema, sch, rows, expected, probes, loaded, order, by_row):
        m2 = build_model(x, schema, 'api', None)
        for rid in order:
            r = by_row[rid]
            kw = {n: v for n, v in r['values'].items() if v is not None}
            m2.new(r['kind'], **kw)
        self.check_join(x, m2, schema, sch, rows, expected, probes, 'API route (new with referential values)',
                        unset_as_null=True)
        probes['api_new_checked'] = probes.get('api_new_checked', 0) + 1
        if any(sch.reflexive(a) for a in schema['assocs']):
            probes['api_reflexive_checked'] = probes.get('api_reflexive_checked', 0) + 1
        # clone from the loaded metamodel, referred instances first
        m3 = build_model(x, schema, 'api', None)
        src = {}
        for c in schema['classes']:
            if c['kind'].upper() not in loaded.metaclasses:
                continue
            for inst in loaded.select_many(c['kind']):
                src[getattr(inst, MARK)] = inst
        for rid in order:
            m3.clone(src[rid])
        self.check_join(x, m3, schema, sch, rows, expected, probes, 'API route (clone)')
        probes['api_clone_checked'] = probes.get('api_clone_checked', 0) + 1

    def reach_missing(self, prop, tier, probes, faults):
        need = ['F3_route_' + r for r in ROUTES] + ['F6_short_read', 'F3_listing_order']
        missing = [k for k in need if not faults.get(k)]
        missing += [k for k in ('multi_key_link', 'overpopulated_end', 'unlinked_referential', 'api_new_checked',
                                'api_clone_checked', 'public_bridgepoint_loader') if not probes.get(k)]
        return missing


def describe_pairs(a, rows, missing, extra):
    by = {r['row']: r for r in rows}
    out = []
    for s, t in list(missing)[:2] + [p for p in list(extra)[:2] if p[1] != 'foreign']:
        out.append('row %s %s=%r / row %s %s=%r' % (s, a['src_keys'], [by[s]['values'][k] for k in a['src_keys']],
                                                   t, a['tgt_keys'], [by[t]['values'][k] for k in a['tgt_keys']]))
    return '; '.join(out)


def diff_canon(c0, c1):
    for k in ('schema', 'ids'):
        if c0[k] != c1[k]:
            a = [l for l in c0[k] if l not in c1[k]]
            b = [l for l in c1[k] if l not in c0[k]]
            return '%s differs: %r vs %r' % (k, a[:3], b[:3])
    for k in sorted(set(c0['classes']) | set(c1['classes'])):
        a, b = c0['classes'].get(k), c1['classes'].get(k)
        if a != b:
            return 'instances of %s differ: %r vs %r' % (k, a, b)
    for k in sorted(set(c0['links']) | set(c1['links'])):
        a, b = c0['links'].get(k), c1['links'].get(k)
        if a != b:
            return 'links %s differ: %r vs %r' % (k, a, b)
    return '?'


def topo_rows(schema, rows, expected):
    '''row ids with every referred row before the rows referring to it; None if cyclic'''
    deps = {r['row']: set() for r in rows}
    for pairs in expected:
        for s, t in pairs:
            if s == t:
                return None
            deps[s].add(t)
    out = []
    done = set()
    pending = [r['row'] for r in rows]
    while pending:
        ready = [r for r in pending if deps[r] <= done]
        if not ready:
            return None
        for r in ready:
            out.append(r)
            done.add(r)
        pending = [r for r in pending if r not in done]
    return out


ENGINE = DeliveryEngine()
ENGINES = [ENGINE]


# ----------------------------------------------------------------------------
# C11: the loading and command-line half
# ----------------------------------------------------------------------------
def os_exit_status(code):
    '''what the parent of a python process sees of sys.exit(code): the low eight bits of an integer, 1 for any other object'''
    if code is None:
        return 0
    if isinstance(code, int):
        return code & 0xFF
    return 1


class Load11Engine(DeliveryEngine):
    '''
    Over-populated ends are only reachable by loading duplicate keys, and the
    command-line tools only see files: the generated population is written to
    the simulated disk (file order seeded, F3), loaded, and every count of the
    consistency check is compared with nested-loop counts over the rows; then
    xtuml.consistency_check.main / bridgepoint.consistency_check.main and the
    `python -m` entry points are run in-process on the same files with random
    -r / -k restrictions.
    '''
    name = 'load11'
    props = ()

    def plan(self, prop, tier):
        p = DeliveryEngine.plan(self, prop, tier)
        p['runs'] = p['runs'] * 2 // 5
        return p

    def describe(self, prop):
        d = DeliveryEngine.describe(self, prop)
        d['rule'] = ('seeded populations with duplicate, null and dangling keys written as files on the simulated disk; counts '
                     'of check_association_integrity / check_uniqueness_constraint / is_consistent (whole model, one '
                     'association, one class) and the return value and exit status of the command-line mains with random '
                     '-r/-k subsets compared with nested-loop counts over the generated rows')
        return d

    def generate(self, prop, seed, tier, idx):
        case = DeliveryEngine.generate(self, prop, seed, tier, idx)
        case['engine'] = self.name
        case['cfg']['inferred'] = []
        st = Streams(seed)
        rng = st['cli']
        schema = case['cfg']['schema']
        # undo "inferred": every class gets its CREATE TABLE in this engine
        have = set(op['i'] for op in case['ops'] if op['t'] == 'class')
        for i in range(len(schema['classes'])):
            if i not in have:
                case['ops'].insert(0, {'t': 'class', 'i': i})
        have_u = set(op['i'] for op in case['ops'] if op['t'] == 'unique')
        for i in range(len(schema['uniques'])):
            if i not in have_u:
                case['ops'].append({'t': 'unique', 'i': i})
        rels = sorted(set(a['rel'] for a in schema['assocs']))
        kinds = [c['kind'] for c in schema['classes']]
        cli = []
        for _ in range(rng.randint(1, 3)):
            cli.append({'r': rng.sample(rels, rng.randint(0, min(2, len(rels)))) + ([97] if rng.random() < 0.1 else []),
                        'k': rng.sample(kinds, rng.randint(0, min(2, len(kinds)))),
                        'tool': rng.choice(['xtuml', 'xtuml_module', 'bridgepoint', 'bridgepoint_module'] if rng.random() < 0.12
                                           else ['xtuml', 'xtuml', 'xtuml_module']),
                        'files': rng.randint(1, 3), 'order': rng.getrandbits(20)})
        case['cfg']['cli'] = cli
        if rng.random() < 0.04:
            # a population whose number of violations is a multiple of 256: what the operating system keeps of an
            # exit status is its low eight bits
            case['cfg']['cli_wrap'] = {'n': rng.choice([256, 256, 512]), 'tool': rng.choice(['xtuml_module', 'bridgepoint_module'])}
        case['cfg']['api'] = False
        return case

    def expected_counts(self, schema, sch, rows, expected):
        per_rel = {}
        for i, a in enumerate(schema['assocs']):
            n = 0
            for r in rows:
                if r['kind'].upper() == a['tgt'].upper():
                    c = len([p for p in expected[i] if p[1] == r['row']])
                    if (c == 0 and not a['src_cond']) or (c > 1 and not a['src_many']):
                        n += 1
                if r['kind'].upper() == a['src'].upper():
                    c = len([p for p in expected[i] if p[0] == r['row']])
                    if (c == 0 and not a['tgt_cond']) or (c > 1 and not a['tgt_many']):
                        n += 1
            per_rel[a['rel']] = per_rel.get(a['rel'], 0) + n
        # identifier violations; referential attributes read as the linked identifying value (or unset)
        by_row = {r['row']: r for r in rows}

        def read(r, name, depth=0):
            if name in sch.referential(r['kind']) and depth < 6:
                vals = []
                for i, a in enumerate(schema['assocs']):
                    if a['src'].upper() == r['kind'].upper() and name in a['src_keys']:
                        tk = a['tgt_keys'][a['src_keys'].index(name)]
                        for s_, t_ in sorted(expected[i]):
                            if s_ == r['row']:
                                vals.append(read(by_row[t_], tk, depth + 1))
                return vals[0] if vals else None
            return r['values'][name]

        per_kind = {}
        for c in schema['classes']:
            lo = hi = 0
            ident = sch.identifying(c['kind'])
            uniq = [u for u in schema['uniques'] if u['kind'].upper() == c['kind'].upper()]
            seen = {u['name']: [] for u in uniq}
            for r in rows:
                if r['kind'].upper() != c['kind'].upper():
                    continue
                for name, ty in c['attrs']:
                    if name not in ident:
                        continue
                    v = read(r, name)
                    if v is None or (ty.upper() == 'UNIQUE_ID' and v == 0):
                        lo += 1
                        hi += 1
                    elif ty.upper() == 'STRING' and v == '':
                        hi += 1
                reps = 0
                for u in uniq:
                    key = tuple(sqlgen.cv(read(r, n)) for n in u['attrs'])
                    if key in seen[u['name']]:
                        reps += 1
                    seen[u['name']].append(key)
                if reps:
                    lo += 1
                    hi += reps
            per_kind[c['kind'].upper()] = (lo, hi)
        return per_rel, per_kind

    def execute(self, case):
        import runpy
        import sys
        x = self.x
        cfg = case['cfg']
        log = Log()
        faults, probes = {}, {}
        states = set()
        guard = WallGuard()
        guard.arm(cfg.get('wall_s', self.WALL_S))
        violation = None
        step = -1

        def bump(d, k, n=1):
            d[k] = d.get(k, 0) + n
        try:
            texts, rows, assoc_idx = self.statements(case)
            schema = {'classes': cfg['schema']['classes'], 'uniques': cfg['schema']['uniques'],
                      'assocs': [cfg['schema']['assocs'][i] for i in assoc_idx]}
            sch = refstore.Schema(schema)
            # classes a minimised case no longer mentions are unknown to the loaded model: not asked about
            present = set()
            for op in case['ops']:
                if op.get('t') == 'class':
                    present.add(cfg['schema']['classes'][op['i']]['kind'].upper())
                elif op.get('t') == 'row':
                    present.add(cfg['rows'][op['i']]['kind'].upper())
            # shared referential attributes whose associations disagree make "the" value ambiguous: skip those
            expected = sqlgen.expected_pairs(schema, rows)
            per_rel, per_kind = self.expected_counts(schema, sch, rows, expected)
            d = Delivery(x, cfg['plans'][0], faults)
            d.install()
            try:
                step = 0
                loader = x.ModelLoader()
                perm, cuts, routes = make_plan(cfg['plans'][0], len(texts))
                d.deliver(loader, chunked([texts[i] for i in perm], cuts), routes)
                m = loader.build_metamodel()
                total_a = sum(per_rel.values())
                got = x.check_association_integrity(m)
                if got != total_a:
                    raise Violation('check', 'check_association_integrity() = %d, the loaded rows give %d violating '
                                    '(instance, end) pairs (per association %r)' % (got, total_a, per_rel), 'check:assoc')
                for rel, n in sorted(per_rel.items()):
                    got = x.check_association_integrity(m, rel)
                    if got != n:
                        raise Violation('check', 'check_association_integrity(%d) = %d, expected %d' % (rel, got, n),
                                        'check:assoc-rel')
                    if n and any(True for _ in [0]):
                        bump(probes, 'check_nonzero_assoc')
                lo = sum(v[0] for v in per_kind.values())
                hi = sum(v[1] for v in per_kind.values())
                got = x.check_uniqueness_constraint(m)
                if not (lo <= got <= hi):
                    raise Violation('check', 'check_uniqueness_constraint() = %d, expected %d..%d (%r)' % (got, lo, hi, per_kind),
                                    'check:unique')
                for kind, (l, h) in sorted(per_kind.items()):
                    if kind not in present:
                        continue
                    got = x.check_uniqueness_constraint(m, kind)
                    if not (l <= got <= h):
                        raise Violation('check', 'check_uniqueness_constraint(%s) = %d, expected %d..%d' % (kind, got, l, h),
                                        'check:unique-kind')
                if not (lo == 0 and hi > 0 and total_a == 0):
                    want = total_a == 0 and hi == 0
                    if m.is_consistent() is not want:
                        raise Violation('check', 'is_consistent() = %r with %d association and %d..%d identifier violations'
                                        % (m.is_consistent(), total_a, lo, hi), 'check:consistent')
                    bump(probes, 'check_consistent_true' if want else 'check_consistent_false')
                if probes.get('overpopulated_end') or any(
                        len([p for p in expected[i] if p[1] == r['row']]) > 1 and not a['src_many']
                        for i, a in enumerate(schema['assocs']) for r in rows if r['kind'].upper() == a['tgt'].upper()):
                    bump(probes, 'overpopulated_end_counted')
                states.add(stable_hash((texts, 'load')))
                # command-line tools on files
                for step, c in enumerate(cfg.get('cli', []), 1):
                    rng = random.Random(c['order'])
                    order = list(texts)
                    rng.shuffle(order)
                    nfiles = max(1, min(c['files'], len(order)))
                    paths = []
                    for j in range(nfiles):
                        path = '/cli/%d_%d.sql' % (step, j)
                        d.disk.put(path, '\n'.join(order[j::nfiles]) + '\n')
                        paths.append(path)
                    args = list(paths)
                    c = dict(c, k=[k_ for k_ in c['k'] if k_.upper() in present])
                    for r_ in c['r']:
                        args += [rng.choice(['-r', '-R']), str(r_)]
                    for k_ in c['k']:
                        args += ['-k', k_ if rng.random() < 0.5 else k_.lower()]
                    rng.shuffle(args) if False else None
                    exp_a = sum(per_rel.get(r_, 0) for r_ in c['r']) if c['r'] else total_a
                    if c['k']:
                        elo = sum(per_kind[k_.upper()][0] for k_ in c['k'])
                        ehi = sum(per_kind[k_.upper()][1] for k_ in c['k'])
                    else:
                        elo, ehi = lo, hi
                    tool = c['tool']
                    if tool == 'bridgepoint':
                        import bridgepoint.consistency_check as bcc
                        got = bcc.main(list(args))
                        bump(probes, 'cli_bridgepoint')
                    elif tool == 'xtuml':
                        import xtuml.consistency_check as xcc
                        got = xcc.main(list(args))
                        bump(probes, 'cli_main')
                    else:
                        argv = sys.argv
                        sys.argv = ['consistency_check'] + list(args)
                        modname = 'bridgepoint.consistency_check' if tool == 'bridgepoint_module' else 'xtuml.consistency_check'
                        try:
                            runpy.run_module(modname, run_name='__main__')
                            got = None
                        except SystemExit as e:
                            got = e.code
                        finally:
                            sys.argv = argv
                        bump(probes, 'cli_module')
                        want_nonzero = (exp_a + elo) > 0
                        if exp_a + elo == 0 and ehi > 0:
                            continue
                        got = os_exit_status(got)
                        if bool(got) is not want_nonzero:
                            raise Violation('cli', 'python -m ' + modname + ' %s exited with %r, the files hold %d '
                                            'association and %d..%d identifier violations' % (' '.join(args), got, exp_a, elo, ehi),
                                            'cli:exit-status')
                        bump(probes, 'cli_exit_nonzero' if want_nonzero else 'cli_exit_zero')
                        continue
                    if not (exp_a + elo <= got <= exp_a + ehi):
                        raise Violation('cli', '%s consistency_check.main(%s) returned %r, the files hold %d association and '
                                        '%d..%d identifier violations in the selected part'
                                        % (tool, ' '.join(args), got, exp_a, elo, ehi), 'cli:count')
                    if c['r'] or c['k']:
                        bump(probes, 'cli_restricted')
                    log.event('cli', step, tool, got)
                w = cfg.get('cli_wrap')
                if w:
                    step += 1
                    text = 'CREATE TABLE Zw (Id INTEGER, Nm STRING);\nCREATE UNIQUE INDEX I1 ON Zw (Id);\n' + \
                           ''.join("INSERT INTO Zw VALUES (7, 'r%d');\n" % j for j in range(w['n'] + 1))
                    d.disk.put('/cli/wrap.sql', text)
                    modname = 'bridgepoint.consistency_check' if w['tool'] == 'bridgepoint_module' else 'xtuml.consistency_check'
                    argv = sys.argv
                    sys.argv = ['consistency_check', '/cli/wrap.sql']
                    try:
                        runpy.run_module(modname, run_name='__main__')
                        got = None
                    except SystemExit as e:
                        got = e.code
                    finally:
                        sys.argv = argv
                    bump(probes, 'cli_exit_multiple_of_256')
                    if not os_exit_status(got):
                        raise Violation('cli', 'python -m %s on a file with %d rows sharing one identifier (%d violations) '
                                        'exits with %r, of which the operating system keeps %d'
                                        % (modname, w['n'] + 1, w['n'], got, os_exit_status(got)), 'cli:exit-status')
                    log.event('cli', step, 'wrap', os_exit_status(got))
            finally:
                d.uninstall()
        except Violation as v:
            violation = v.as_dict(step)
        except SimStall as s:
            violation = Violation('stall', 'did not return: %s' % s).as_dict(step)
        except Exception as ex:
            import traceback
            tb = traceback.extract_tb(ex.__traceback__)
            inside = [f for f in tb if '/xtuml/' in f.filename or '/bridgepoint/' in f.filename or '/ply/' in f.filename]
            if not inside:
                raise
            where = '%s:%d' % (inside[-1].filename.rsplit('/', 1)[-1], inside[-1].lineno)
            violation = Violation('exception', 'unexpected %s: %s at %s' % (type(ex).__name__, ex, where),
                                  'exception:%s:%s' % (type(ex).__name__, where)).as_dict(step)
        finally:
            guard.disarm()
        if violation:
            log.event('violation', violation['oracle'])
        return {'violation': violation, 'digest': log.hexdigest(), 'steps': max(step + 1, 0), 'faults': faults,
                'probes': probes, 'states': states, 'nontrivial': bool(states), 'lines': 0}

    def reach_missing(self, prop, tier, probes, faults):
        return [k for k in ('overpopulated_end_counted', 'cli_main', 'cli_module', 'cli_restricted', 'cli_exit_nonzero',
                            'cli_exit_zero', 'check_nonzero_assoc', 'cli_exit_multiple_of_256') if not probes.get(k)]


LOAD11 = Load11Engine()
ENGINES = [ENGINE, LOAD11]
