'''
Engine `storedisk` -- property C01 (DESIGN.md §4/C01): the `store` histories
plus two more operations,

  checkpoint(route)   persist the current model onto the simulated disk through
                      one of the serialization routes of the quantifier
  restart             drop every in-memory handle, load the files with a fresh
                      loader (route and file order drawn), carry on with the
                      rebuilt metamodel

The reference model never restarts.  After an acknowledged checkpoint +
restart the rebuilt metamodel must equal it (schema, identifiers, instances in
order, values with the two normalisations the statement grants, link pairs);
a second checkpoint / restart / checkpoint must reproduce the text (fixed
point).  Faults: F6 short raw writes and reads always on, random buffer sizes;
F4 crash at the n-th raw write and F5 ENOSPC/EIO make the checkpoint
unacknowledged -- the torn file is then only required to load or be rejected
with ParsingException (C12's oracle) and the run continues in memory.
'''
import copy
import random

from sim.engine import Violation
from sim.disk import SimDisk, SimCrash
from sim.rng import Streams
from sim import seams
from engines import refstore, store
from engines.store import StoreEngine, Gen, Exec, Skip, apply_ref, spell, draw_value

ROUTES = ('serialize_database', 'serialize_parts', 'persist_database', 'persist_parts', 'persist_parts_one_file',
          'serialize_dispatch')
KEYWORD_NAMES = ['TABLE', 'CREATE', 'INSERT', 'INTO', 'VALUES', 'ROP', 'REF_ID', 'FROM', 'TO', 'PHRASE', 'UNIQUE',
                 'INDEX', 'ON', 'TRUE', 'FALSE', 'M', 'MC', 'table', 'From', 'm',
                 # names that look like other tokens of the dialect, or like attributes of python classes
                 'R1', 'R2D2', 'R10x', 'mro']
ODD_PHRASES = ["is employee's boss", "reports to employee's boss", 'has (many)', 'says "hi" to', 'a -- b', 'x, y;', "''",
               ' padded ', 'PHRASE', "it''s"]

store.PROFILES['C01'] = dict(new=5, new_args=2, relate=7, unrelate=2, delete=1.5, setattr=7, checkpoint=4, select=0.5, nav=0.5,
                             swap_attr=0.5, grow=0.25)


def rename_with_keywords(rng, schema):
    '''identifiers that are also SQL keywords or cardinality words (consistently renamed)'''
    names = list(KEYWORD_NAMES)
    rng.shuffle(names)
    kmap = {}
    seen = set()
    uniq = []
    for n in names:
        if n.upper() not in seen:
            seen.add(n.upper())
            uniq.append(n)
    names = uniq
    for c in schema['classes']:
        if names and rng.random() < 0.35:
            kmap[c['kind']] = names.pop()
    amap = {}
    for c in schema['classes']:
        for a in c['attrs']:
            key = (c['kind'], a[0])
            taken = [x[0].upper() for x in c['attrs']] + [v.upper() for (k, _), v in amap.items() if k == c['kind']]
            if names and rng.random() < 0.12 and names[-1].upper() not in taken:
                amap[key] = names.pop()
    for c in schema['classes']:
        for a in c['attrs']:
            a[0] = amap.get((c['kind'], a[0]), a[0])
    for u in schema['uniques']:
        u['attrs'] = [amap.get((u['kind'], n), n) for n in u['attrs']]
        if u.get('attrs_as'):
            u['attrs_as'] = [n.swapcase() for n in u['attrs']]
        u['kind'] = kmap.get(u['kind'], u['kind'])
    for a in schema['assocs']:
        a['src_keys'] = [amap.get((a['src'], n), n) for n in a['src_keys']]
        a['tgt_keys'] = [amap.get((a['tgt'], n), n) for n in a['tgt_keys']]
        if a.get('src_keys_as'):
            a['src_keys_as'] = [n.swapcase() for n in a['src_keys']]
        if a.get('tgt_keys_as'):
            a['tgt_keys_as'] = [n.swapcase() for n in a['tgt_keys']]
        a['src'] = kmap.get(a['src'], a['src'])
        a['tgt'] = kmap.get(a['tgt'], a['tgt'])
    for c in schema['classes']:
        c['kind'] = kmap.get(c['kind'], c['kind'])
    # phrases are free text: apostrophes, quotes, comment markers and punctuation included
    # (one consistent renaming: equal phrases stay equal, different ones stay different)
    if rng.random() < 0.15:
        pmap = {}
        for a in schema['assocs']:
            for end in ('src_phrase', 'tgt_phrase'):
                if a[end] and a[end] not in pmap and rng.random() < 0.7:
                    pmap[a[end]] = '%s (%s)' % (rng.choice(ODD_PHRASES), a[end])
        for a in schema['assocs']:
            for end in ('src_phrase', 'tgt_phrase'):
                a[end] = pmap.get(a[end], a[end])
    return schema


class DiskGen(Gen):
    def __init__(self, prop, seed, tier):
        Gen.__init__(self, prop, seed, tier)
        sw = self.st['swarm2']
        self.cfg['p_exotic'] = sw.choice([0.2, 0.5, 0.8])
        self.cfg['spelling'] = 'declared'
        self.cfg['max_live'] = sw.choice([6, 9, 12])
        self.cfg['p_crash'] = sw.choice([0.0, 0.15, 0.3])
        self.cfg['cr_strings'] = sw.random() < 0.3
        if sw.random() < 0.5:
            rename_with_keywords(self.st['rename'], self.cfg['schema'])
            self.sch = refstore.Schema(copy.deepcopy(self.cfg['schema']))
            _, refgen = store.make_idgen(store._FakeXtuml, self.cfg['idgen'], seed)
            self.ref = refstore.RefStore(self.sch, refgen)
            self.good_classes = [c for c in self.sch.classes if not c.get('bad')]
        self.restarts = 0

    def value_for(self, kind, name):
        ty = self.sch.attr_type(kind, name)
        if ty.upper() == 'STRING' and self.cfg.get('cr_strings') and self.rng.random() < 0.2:
            return self.rng.choice(['a\rb', 'l1\r\nl2', '\r'])
        return draw_value(self.rng, ty, self.cfg['p_exotic'])

    def op_new(self, kind=None, mode='plain'):
        op = Gen.op_new(self, kind, mode)
        if op is None or op.get('fault'):
            return op
        # the persistable domain: identifying values of types without a null (integer, real, boolean)
        # must not be the value the format writes for "unset", and must be distinct
        k = self.sch.cls(op['kind'])['kind']
        refs = self.sch.referential(k)
        npos = len(op['args'])
        comp = [(n, t) for n, t in self.sch.attrs(k)
                if n not in refs and n in self.sch.identifying(k) and t.upper() in ('INTEGER', 'STRING')]
        if len(comp) >= 2 and len(set(t.upper() for _, t in comp)) == 1 and self.rng.random() < 0.7:
            # a compound key of one type: small shared domain, so that keys are permutations of each other
            have = set(tuple(self.ref.read_or_none(h, n) for n, _ in comp) for h in self.live_of(k))
            for _ in range(20):
                tup = tuple(self.rng.randint(1, 3) if t.upper() == 'INTEGER' else 'v%d' % self.rng.randint(1, 3)
                            for _, t in comp)
                mixed = [h for h in have if None not in h and len(set(h)) > 1]
                if mixed and self.rng.random() < 0.5:
                    # the same values in another order than an existing key
                    tup = list(self.rng.choice(sorted(mixed)))
                    self.rng.shuffle(tup)
                    tup = tuple(tup)
                if tup not in have:
                    break
            else:
                tup = None
            if tup is not None:
                for (n, t), v in zip(comp, tup):
                    pos = [a for a, _ in self.sch.attrs(k)].index(n)
                    if pos < npos:
                        op['args'][pos] = v
                    else:
                        op['kw'] = [kv for kv in op['kw'] if kv[0].upper() != n.upper()] + [[n, v]]
                return op
        for pos, (name, ty) in enumerate(self.sch.attrs(k)):
            if name in refs or name not in self.sch.identifying(k) or ty.upper() == 'UNIQUE_ID':
                continue
            self.nfresh = getattr(self, 'nfresh', 0) + 1
            v = {'INTEGER': 1000 + self.nfresh, 'REAL': self.nfresh + 0.5, 'STRING': 'id%d' % self.nfresh,
                 'BOOLEAN': True}[ty.upper()]
            if pos < npos:
                op['args'][pos] = v
            else:
                op['kw'] = [kv for kv in op['kw'] if kv[0].upper() != name.upper()] + [[name, v]]
        return op

    def op_setattr(self, mode='plain'):
        op = Gen.op_setattr(self, mode)
        if op is not None and 'fault' not in op:
            kind = self.ref.kind_of(op['h'])
            op['v'] = self.value_for(kind, self.sch.declared(kind, op['name']))
        return op

    def op_checkpoint(self):
        rng = self.rng
        if self.restarts >= 3:
            return None
        self.restarts += 1
        route = rng.choice(ROUTES)
        fault = None
        if rng.random() < self.cfg['p_crash']:
            fault = {'k': rng.choice(['crash', 'crash', 'enospc', 'eio']), 'at': rng.randint(1, 40)}
        ck = {'op': 'checkpoint', 'route': route, 'fault': fault, 'buf': rng.choice([None, 8, 64, 1000, 8192]),
              'short_max': rng.choice([1, 3, 17, 1 << 20]), 'fixed_point': rng.random() < 0.5}
        rs = {'op': 'restart', 'load': rng.choice(['filename_input', 'file_input', 'input', 'load_metamodel']),
              'order_seed': rng.getrandbits(30)}
        if rng.random() < 0.25:
            rs['torn'] = rng.random()
        return [ck, rs]

    def run(self):
        # reuse the main loop of the store generator with one more op family
        table_hook = self.cfg['weights']
        orig = Gen.op_check

        def op_dispatch():
            return self.op_checkpoint()
        self._extra = {'checkpoint': op_dispatch}
        return Gen.run(self)


class DiskExec(Exec):
    def run(self):
        self.disk = SimDisk(random.Random(self.case['seed'] & 0x7fffffff))
        self.disk.short_read = True
        self.disk.short_write = True
        import xtuml.load
        import xtuml.persist
        self.mods = (xtuml.load, xtuml.persist)
        self.saved = [getattr(m, 'open', None) for m in self.mods]
        for m in self.mods:
            m.open = self.disk.open
        self.acked = None
        self.nck = 0
        try:
            res = Exec.run(self)
        finally:
            for m, o in zip(self.mods, self.saved):
                if o is None:
                    try:
                        del m.open
                    except AttributeError:
                        pass
                else:
                    m.open = o
        for k, v in self.disk.fired.items():
            res['faults'][k] = res['faults'].get(k, 0) + v
        return res

    def do(self, op):
        k = op['op']
        try:
            if k == 'checkpoint':
                self.checkpoint(op)
                self.log.event(self.step, 'checkpoint', op['route'], self.acked is not None)
                return
            if k == 'restart':
                self.restart(op)
                self.log.event(self.step, 'restart', op['load'])
                self.record_state()
                return
        except Skip:
            self.log.event(self.step, 'skip', k)
            return
        return Exec.do(self, op)

    # ---- persist
    def write_files(self, op, tag):
        '''returns the list of file paths written (in a valid load order is irrelevant: any order loads)'''
        x, m, disk = self.x, self.w.m, self.disk
        route = op['route']
        base = '/ck/%s' % tag
        disk.mkdirs(base)
        files = []

        def put(name, text):
            path = '%s/%s' % (base, name)
            with disk.open(path, 'w') as f:
                f.write(text)
            files.append(path)

        if route == 'serialize_database':
            put('db.sql', x.serialize_database(m))
        elif route == 'serialize_parts':
            put('schema.sql', x.serialize_schema(m))
            put('inst.sql', x.serialize_instances(m))
            put('ids.sql', x.serialize_unique_identifiers(m))
        elif route == 'persist_database':
            path = base + '/db.sql'
            x.persist_database(m, path)
            files.append(path)
        elif route == 'persist_parts':
            x.persist_schema(m, base + '/schema.sql')
            x.persist_instances(m, base + '/inst.sql')
            x.persist_unique_identifiers(m, base + '/ids.sql')
            files += [base + '/schema.sql', base + '/inst.sql', base + '/ids.sql']
        elif route == 'persist_parts_one_file':
            path = base + '/all.sql'
            x.persist_schema(m, path, 'w')
            x.persist_instances(m, path, 'a')
            x.persist_unique_identifiers(m, path, mode='a')
            files.append(path)
        else:
            parts = []
            for ukind in sorted(m.metaclasses):
                parts.append(x.serialize(m.metaclasses[ukind].clazz))
            for ass in m.associations:
                parts.append(x.serialize(ass))
            for inst in m.instances:
                parts.append(x.serialize(inst))
            parts.append(x.serialize_unique_identifiers(m))
            put('dispatch.sql', ''.join(parts))
        return files

    def checkpoint(self, op):
        disk = self.disk
        if any(r.unset for r in self.ref.rows.values() if r.alive) or self.w.zombies:
            raise Skip('model outside the persistable domain')
        why = self.outside_domain()
        if why:
            self.bump(self.probes, 'checkpoint_skipped_outside_domain')
            raise Skip('model outside the persistable domain: ' + why)
        self.nck += 1
        disk.restart()
        disk.buffer_size = op.get('buf')
        disk.short_write_max = op.get('short_max', 1 << 20)
        fault = op.get('fault')
        if fault:
            if fault['k'] == 'crash':
                disk.crash_at = fault['at']
            else:
                disk.write_error_at = fault['at']
                disk.write_errno = 28 if fault['k'] == 'enospc' else 5
        self.acked = None
        files = None
        try:
            files = self.write_files(op, 'c%d' % self.nck)
            self.acked = {'files': files, 'route': op['route'], 'fixed_point': op.get('fixed_point')}
            self.bump(self.probes, 'checkpoint_' + op['route'])
        except SimCrash:
            self.bump(self.probes, 'checkpoint_crashed')
        except OSError:
            if not (disk.fired.get('F5_io_error_write')):
                raise
            self.bump(self.probes, 'checkpoint_ioerror')
        finally:
            disk.restart()
        if self.acked is None:
            self.torn_files_must_load_or_be_rejected('c%d' % self.nck)

    def outside_domain(self):
        '''
        "Populations whose referential values resolve": for every association and every referring
        instance, the referred instances whose identifying values equal the values its referential
        attributes are written with are exactly its partners (the join of the format reproduces the links).
        '''
        ref = self.ref
        sch = ref.schema
        for i, a in enumerate(sch.assocs):
            tgts = ref.live(a['tgt'])
            for s in ref.live(a['src']):
                vals = []
                for sk in a['src_keys']:
                    c = ref.ref_candidates(s, sk)
                    if len(set(map(repr, c))) > 1:
                        return 'shared referential attribute with conflicting links'
                    v = c[0]
                    ty = sch.attr_type(a['src'], sk)
                    vals.append(refstore.null_of(ty) if v is None else v)
                null = any(refstore.is_null_key(v, sch.attr_type(a['src'], sk)) for v, sk in zip(vals, a['src_keys']))
                matched = set()
                if not null:
                    for t in tgts:
                        tv = [ref.read_or_none(t, tk) for tk in a['tgt_keys']]
                        tv = [refstore.null_of(sch.attr_type(a['tgt'], tk)) if v is None else v
                              for v, tk in zip(tv, a['tgt_keys'])]
                        if any(refstore.is_null_key(v, sch.attr_type(a['tgt'], tk)) for v, tk in zip(tv, a['tgt_keys'])):
                            continue
                        if all(self.cv(x_) == self.cv(y_) for x_, y_ in zip(vals, tv)):
                            matched.add(t)
                if matched != set(ref.partners(i, s, True)):
                    return 'R%d: the values of %s.%s do not resolve to its partners' % (a['rel'], s, a['src_keys'])
        return None

    def torn_files_must_load_or_be_rejected(self, tag):
        x = self.x
        for path in sorted(p for p in self.disk.files if p.startswith('/ck/%s/' % tag)):
            loader = x.ModelLoader()
            try:
                loader.filename_input(path)
                outcome = 'accepted'
            except x.ParsingException:
                outcome = 'rejected'
            except UnicodeDecodeError:
                outcome = 'torn-utf8'       # a multi-byte character cut in two is not "a text"
            except Exception as e:
                raise Violation('torn', 'loading the torn file %s (%d bytes) raised %s: %s'
                                % (path, len(self.disk.files[path]), type(e).__name__, e), 'torn:%s' % type(e).__name__)
            self.bump(self.probes, 'torn_' + outcome)

    # ---- restart
    def restart(self, op):
        x, disk = self.x, self.disk
        if self.acked is None:
            raise Skip('no acknowledged checkpoint')
        acked = self.acked
        files = list(acked['files'])
        random.Random(op['order_seed']).shuffle(files)
        m2 = self.load(files, op['load'], op.get('torn'))
        self.bump(self.probes, 'restart_' + op['load'])
        self.adopt(m2)
        self.normalise_reference()
        self.compare_schema('restart (step %d)' % self.step)
        self.compare_state('restart (step %d, route %s)' % (self.step, acked['route']))
        if any(sum(len(p) for p in self.ref.pairs) for _ in (0,)) and True:
            if sum(len(p) for p in self.ref.pairs):
                self.bump(self.probes, 'restart_with_links')
        if any(isinstance(v, str) and ("'" in v or '--' in v or '\n' in v)
               for r in self.ref.rows.values() if r.alive for v in r.values.values()):
            self.bump(self.probes, 'restart_with_tricky_string')
        if acked.get('fixed_point'):
            # text written after one round must be reproduced by a second round
            ck = {'route': acked['route'], 'buf': None, 'short_max': 7}
            self.nck += 1
            f2 = self.write_files(ck, 'c%d' % self.nck)
            t2 = [disk.get(p) for p in f2]
            m3 = self.load(f2, op['load'])
            self.adopt(m3)
            self.compare_state('second restart (step %d)' % self.step)
            self.nck += 1
            f3 = self.write_files(ck, 'c%d' % self.nck)
            t3 = [disk.get(p) for p in f3]
            if t2 != t3:
                for a, b in zip(t2, t3):
                    if a != b:
                        i = next((j for j in range(min(len(a), len(b))) if a[j] != b[j]), min(len(a), len(b)))
                        raise Violation('fixed-point', 'route %s: the text written after one load differs from the text '
                                        'written after two loads at byte %d: %r vs %r'
                                        % (acked['route'], i, a[max(0, i - 60):i + 60], b[max(0, i - 60):i + 60]),
                                        'fixed-point')
            self.bump(self.probes, 'fixed_point_checked')
        self.acked = None

    def load(self, files, how, torn=None):
        x = self.x
        if how == 'load_metamodel':
            seams.install_entropy()
            return x.load_metamodel(files if len(files) > 1 else files[0])
        loader = x.ModelLoader()
        if torn is not None and files:
            # the restarted process first meets a torn copy of one of its files (an earlier, interrupted write): if the
            # loader rejects it, the same loader goes on to read the intact files
            text = self.disk.get(files[0]).decode('utf-8')
            cut = text[:int(len(text) * torn)]
            try:
                loader.input(cut, name='torn copy')
                loader = x.ModelLoader()        # a prefix that happens to be complete: start over
            except x.ParsingException:
                self.bump(self.probes, 'restart_after_rejected_torn_copy')
        for path in files:
            if how == 'filename_input':
                loader.filename_input(path)
            elif how == 'file_input':
                with self.disk.open(path, 'r') as f:
                    loader.file_input(f)
            else:
                loader.input(self.disk.get(path).decode('utf-8'), name=path)
        return loader.build_metamodel()

    def adopt(self, m2):
        '''the new process: old handles are gone; re-bind by (class, position)'''
        w, ref = self.w, self.ref
        w.m = m2
        w.gen = m2.id_generator
        w.h2i.clear()
        w.i2h.clear()
        self.holds.clear()
        for c in ref.schema.classes:
            if c.get('bad'):
                continue
            try:
                insts = list(m2.select_many(c['kind']))
            except x_meta_exc(self.x) as e:
                raise Violation('restart', 'class %s is missing after the restart: %s' % (c['kind'], e), 'restart:class')
            want = ref.live(c['kind'])
            if len(insts) != len(want):
                raise Violation('restart', 'class %s has %d instances after the restart, %d before'
                                % (c['kind'], len(insts), len(want)), 'restart:count')
            for h, inst in zip(want, insts):
                w.bind(h, inst)
        # a fresh generator: the entropy stream simply continues
        ent = seams.install_entropy()
        k0 = ent.k - 1
        seed = self.case['seed']
        ref.idgen = refstore.RefSequenceGen(lambda k: seams.entropy_value(seed, k0 + k))
        if not seams.uuid_through_seam(self.x):
            g, ref.idgen = store.make_idgen(self.x, 'uuid', seed)
            m2.id_generator = g
            w.gen = g
        self.extra['has_peek'] = callable(getattr(w.gen, 'peek', None))
        ref.adopted.clear()

    def normalise_reference(self):
        '''the two normalisations the statement grants: six decimals for reals, unset == null of the type'''
        ref = self.ref
        for row in ref.rows.values():
            if not row.alive:
                continue
            for name, ty in ref.schema.attrs(row.kind):
                if name not in row.values:
                    continue
                v = row.values[name]
                if v is None:
                    row.values[name] = refstore.null_of(ty)
                elif ty.upper() == 'REAL':
                    row.values[name] = float('%f' % v)
                elif ty.upper() == 'BOOLEAN':
                    row.values[name] = bool(v)

    def compare_schema(self, where):
        ref, m = self.ref, self.w.m
        sch = ref.schema
        want_classes = {c['kind'].upper(): [(n, t.upper()) for n, t in c['attrs']] for c in sch.classes if not c.get('bad')}
        got_classes = {k: [(n, t.upper()) for n, t in mc.attributes] for k, mc in m.metaclasses.items()}
        if got_classes != want_classes:
            raise Violation('schema', 'after %s: classes/attribute types differ: %r vs %r'
                            % (where, diff_dict(got_classes, want_classes), 'reference'), 'schema:classes')
        for c in sch.classes:
            if not c.get('bad') and m.metaclasses[c['kind'].upper()].kind != c['kind']:
                raise Violation('schema', 'after %s: class name %r became %r'
                                % (where, c['kind'], m.metaclasses[c['kind'].upper()].kind), 'schema:kind')
        want_ass = sorted(('R%d' % a['rel'], a['src'], tuple(a['src_keys']), a['src_many'], a['src_cond'], a['src_phrase'],
                           a['tgt'], tuple(a['tgt_keys']), a['tgt_many'], a['tgt_cond'], a['tgt_phrase']) for a in sch.assocs)
        got_ass = sorted((ass.rel_id, ass.source_link.to_metaclass.kind, tuple(ass.source_keys), bool(ass.source_link.many),
                          bool(ass.source_link.conditional), ass.target_link.phrase,
                          ass.target_link.to_metaclass.kind, tuple(ass.target_keys), bool(ass.target_link.many),
                          bool(ass.target_link.conditional), ass.source_link.phrase) for ass in m.associations)
        if got_ass != want_ass:
            bad = [a for a in got_ass if a not in want_ass][:2]
            miss = [a for a in want_ass if a not in got_ass][:2]
            raise Violation('schema', 'after %s: associations differ: loaded %r, expected %r' % (where, bad, miss),
                            'schema:associations')
        want_u = sorted((u['kind'].upper(), u['name'], tuple(u['attrs'])) for u in sch.uniques)
        got_u = sorted((k, name, tuple(attrs)) for k, mc in m.metaclasses.items() for name, attrs in mc.indices.items())
        if got_u != want_u:
            raise Violation('schema', 'after %s: unique identifiers differ: loaded %r, expected %r'
                            % (where, [u for u in got_u if u not in want_u][:3], [u for u in want_u if u not in got_u][:3]),
                            'schema:identifiers')


def x_meta_exc(x):
    return x.MetaException


def diff_dict(a, b):
    out = []
    for k in sorted(set(a) | set(b)):
        if a.get(k) != b.get(k):
            out.append((k, a.get(k), b.get(k)))
    return out[:2]


class StoreDiskEngine(StoreEngine):
    name = 'storedisk'
    props = ('C01',)
    WALL_S = 20.0

    def plan(self, prop, tier):
        if tier == 'quick':
            return {'runs': 14000, 'chunk': 100, 'wall_cap': 240, 'determinism_runs': 40}
        return {'runs': 250000, 'chunk': 200, 'wall_cap': 3000, 'determinism_runs': 500}

    def describe(self, prop):
        d = StoreEngine.describe(self, prop)
        d['rule'] = ('store histories (seeded, 1-3 interleaved clients, exotic value alphabets: quotes, doubled quotes, '
                     'comment markers, newlines, NUL, non-ASCII, >64-bit and negative integers, large/negative reals, 128-bit '
                     'ids; keyword and cardinality words as identifiers) with up to three checkpoint/restart pairs per run over '
                     'the six serialization routes and four load routes on the simulated disk; crash (F4) or ENOSPC/EIO (F5) '
                     'inside the writes of a fraction of the checkpoints; short raw writes/reads and random buffer sizes always '
                     'on. A state is the canonical reference state after a step; non-trivial when it holds a link. '
                     'distinct_nontrivial counts distinct non-trivial states over the batch.')
        d['components'] = {
            'real': ['xtuml.persist (serialize_* and the separately written persist_* family)', 'xtuml.load', 'xtuml.meta',
                     'CPython io.TextIOWrapper / BufferedWriter / BufferedReader (newline translation, encoding, buffering)'],
            'stub': ['disk below io.RawIOBase (SimDisk: short writes/reads, crash at n-th raw write, ENOSPC/EIO)', 'uuid.uuid4'],
            'oracle': ['RefStore that never restarts'],
        }
        d['assumptions'] = ['process-crash model: bytes handed to the raw layer survive, user-space buffers are lost; pyxtuml never '
                            'calls fsync, so nothing stronger is demanded',
                            'default text encoding UTF-8 (the sandbox locale); other locales are not modelled',
                            'the variant without CREATE TABLE statements is not compared (attribute names and the boolean type '
                            'are not recoverable from instances alone)'] + d['assumptions'][:2]
        return d

    def generate(self, prop, seed, tier, idx):
        g = DiskGen(prop, seed, tier)
        case = g.run()
        case['engine'] = self.name
        return case

    def execute(self, case):
        return DiskExec(self, case).run()

    def reach_missing(self, prop, tier, probes, faults):
        need = ['checkpoint_' + r for r in ROUTES] + ['restart_filename_input', 'restart_file_input', 'restart_input',
                                                      'restart_load_metamodel', 'restart_with_links',
                                                      'restart_with_tricky_string', 'fixed_point_checked',
                                                      'checkpoint_crashed', 'checkpoint_ioerror', 'torn_rejected']
        missing = [k for k in need if not probes.get(k)]
        missing += [k for k in ('F6_short_write', 'F6_short_read', 'F4_crash', 'F5_io_error_write') if not faults.get(k)]
        return missing


ENGINE = StoreDiskEngine()
