'''
Engine `oalfault` -- property C13 (DESIGN.md §4/C13), claimed narrowly:

 * sentence 1 (parsing is total and bounded) under the storage-fault model of
   C12 applied where OAL text lives: inside string values of model files;
 * sentence 2 (positions are exact) only as a *self-consistency invariant over
   every tree the runs produce*; layouts are not generated.

Corpus: the OAL bodies of the repository's tests (corpus/oal/repo_*.oal) and
hand-written bodies using every statement production, both comment forms,
tabs and multi-line layout (corpus/oal/hand_*.oal).  Fault sites (F2) per
body: truncation after every character; per token delete / duplicate / swap /
lexical-class flip / character flips; delimiter faults on comments and
strings; every whitespace character flipped among space, tab, newline and
carriage return (including the blank inside `end if`).  A fraction of the
faulted bodies travels end to end: written into a model file on the simulated
disk, loaded through filename_input, parsed from the loaded instance.

Oracles: (1) Node or oal.ParseException, nothing else; (2) metered step budget,
per-parse wall budget (confirmed in a fresh process with three times the
budget) and the process-level hang watchdog; (3) for every node of every
returned tree: recorded substring == text[start:end]; line/column recomputed
from the offsets; span begins/ends on token boundaries of an independent
tokenizer; statement and expression spans re-parse to a structurally equal node.
'''
import glob
import os
import random
import re
import time

from sim.engine import Engine, Log, Violation, stable_hash
from sim.meter import SimStall, WallGuard, Meter
from sim.rng import Streams
from sim import build
from sim.disk import SimDisk

VERIF = os.path.dirname(os.path.dirname(os.path.abspath(__file__)))

TOKEN_RE = re.compile(r'''
    (?P<comment>/\*.*?\*/)
  | (?P<slcomment>//[^\n]*\n?)
  | (?P<string>"[^"\n]*")
  | (?P<ticked>'[^']*')
  | (?P<fraction>(?:\d*\.\d+|\d+\.)(?:[eE][-+]?\d+)?[FfLl]?|\d+[eE][-+]?\d+[FfLl]?)
  | (?P<number>\d+)
  | (?P<ident>[A-Za-z_][A-Za-z_0-9]*)
  | (?P<op>::|==|!=|->|<=|>=)
  | (?P<punct>[;=.()*:,\[\]?<>+\-|/%&^])
  | (?P<ws>[ \t\r\n]+)
  | (?P<other>.)
''', re.X | re.S)

FLIP = {
    'number': ['"7"', '7.5', 'x7', 'true', '-', ';', "'7'", '7.5f', '7e2l'],
    'fraction': ['1', '"1.5"', 'f', '1.5f', '2.5L', '1e3F'],

    'string': ['1', 'str', "'str'", '"', '""'],
    'ticked': ['"p"', 'p', "'", "''"],
    'ident': ['1', '"id"', 'self', 'selected', 'param', 'if', 'end', 'not', 'many', '_', 'x::y'],
    'op': ['=', '::', '->', '.', '<', '!'],
    'punct': [';', '(', ')', '=', '.', ',', '[', ']', ':', '*', '-', '/', ''],
    'comment': ['/*', '*/', '/**/', '//', '/* x'],
    'slcomment': ['//', '/', '\n'],
}
CHARS = "aZ0_'\"-;:,()*/\n \t.=<>[]\\\x00é!\x0c\x0b\xa0\u2028$#@"
# "arbitrary strings": an opening delimiter that is never closed, followed by a long run of one short unit --
# the shape on which an ambiguous token pattern back-tracks exponentially
REDOS_OPEN = ['"', "'", '/*', '//', '(', '[', 'x = "', "select any a related by b->C[R1.'", '1.', '1e', 'a::', 'end ']
REDOS_UNIT = ['\\', '\\"', 'a', '*', '* ', '/', '\n', '\r\n', ' ', '\t', '.', '1', 'e+', '::', "''", '*/ /*', 'end\n']
REDOS_N = [12, 17, 22, 30, 40]
# single tokens of extreme length in an otherwise valid statement (number, real, identifier, string, parentheses)
HUGE = ['x = ' + '7' * 5000 + ';', 'x = 1.' + '7' * 5000 + ';', 'x = 0' * 1 + '9' * 4400 + ' + 1;', 'y' * 6000 + ' = 1;',
        'x = "' + 'a' * 50000 + '";', 'x = ' + '(' * 800 + '1' + ')' * 800 + ';', 'x = -' + '8' * 4301 + ';',
        "select any a related by b->C[R" + '1' * 4400 + "];"]
WS = ' \t\n\r'

EXPR = ('BinaryOperationNode', 'UnaryOperationNode', 'IntegerNode', 'RealNode', 'StringNode', 'BooleanNode',
        'EnumOrNamedConstantNode', 'VariableAccessNode', 'FieldAccessNode', 'IndexAccessNode', 'ParamAccessNode',
        'SelfAccessNode', 'SelectedAccessNode', 'InstanceInvocationNode', 'FunctionInvocationNode',
        'ImplicitInvocationNode', 'ClassInvocationNode', 'BridgeInvocationNode', 'PortInvocationNode')


def tokenize(text):
    return [(m.lastgroup, m.start(), m.end()) for m in TOKEN_RE.finditer(text)]


def enumerate_faults(text):
    out = []
    for pos in range(len(text)):
        out.append({'k': 'trunc', 'p': pos})
        if text[pos] in WS:
            for w in range(len(WS)):
                if WS[w] != text[pos]:
                    out.append({'k': 'ws_flip', 'p': pos, 'w': w})
    for c in range(len(TAIL)):
        out.append({'k': 'tail', 'c': c})
    for k, a, b in tokenize(text):
        if k not in ('ws', 'other'):
            for v in range(len(LAYOUT)):
                out.append({'k': 'layout', 'p': a, 'v': v})
    toks = [(k, a, b) for k, a, b in tokenize(text) if k != 'ws']
    for ti, (k, a, b) in enumerate(toks):
        out.append({'k': 'tok_del', 't': ti})
        out.append({'k': 'tok_dup', 't': ti})
        if ti + 1 < len(toks):
            out.append({'k': 'tok_swap', 't': ti})
        for alt in range(len(FLIP.get(k, []))):
            out.append({'k': 'tok_flip', 't': ti, 'alt': alt})
        for where in sorted(set([a, (a + b - 1) // 2, b - 1])):
            for ci in (0, 1):
                out.append({'k': 'chr_flip', 'p': where, 'c': (where * 7 + ci * 5 + len(text)) % len(CHARS)})
        if k in ('comment', 'string', 'ticked'):
            # delimiter faults: lose the opening or the closing delimiter
            out.append({'k': 'delim', 't': ti, 'side': 0})
            out.append({'k': 'delim', 't': ti, 'side': 1})
    return out


# layout inserted in front of a token: the tree must keep its shape, every position must follow the new layout
LAYOUT = ['/* c */', '/*\n * two\n * lines */\n\t', '// line comment\n', '\t', '\n\n   ', ' \r\n ', '/**/']
TAIL = ['\x0c', '\x0b', '\xa0', '\u2028', '\x1c \n', '$', '\\', '\x00', ' \x0c  \n', '@\t', '"', "'", '/*', '//']


def apply_fault(text, f):
    k = f['k']
    if k == 'trunc':
        return text[:f['p']]
    if k == 'layout':
        p = f['p']
        if p > len(text):
            return None
        return text[:p] + LAYOUT[f['v'] % len(LAYOUT)] + text[p:]
    if k == 'tail':
        # garbage appended by a torn write of the *next* record: a stray character closes the text
        return text + TAIL[f['c'] % len(TAIL)]
    if k == 'ws_flip':
        p = f['p']
        if p >= len(text) or text[p] not in WS:
            return None
        return text[:p] + WS[f['w']] + text[p + 1:]
    if k == 'chr_flip':
        p = f['p']
        if p >= len(text):
            return None
        ch = CHARS[f['c'] % len(CHARS)]
        if text[p] == ch:
            ch = CHARS[(f['c'] + 1) % len(CHARS)]
        return text[:p] + ch + text[p + 1:]
    toks = [(kk, a, b) for kk, a, b in tokenize(text) if kk != 'ws']
    t = f.get('t', 0)
    if t >= len(toks):
        return None
    kk, a, b = toks[t]
    if k == 'tok_del':
        return text[:a] + text[b:]
    if k == 'tok_dup':
        return text[:b] + ' ' + text[a:b] + text[b:]
    if k == 'tok_swap':
        if t + 1 >= len(toks):
            return None
        _, a2, b2 = toks[t + 1]
        return text[:a] + text[a2:b2] + text[b:a2] + text[a:b] + text[b2:]
    if k == 'tok_flip':
        alts = FLIP.get(kk, [])
        if f['alt'] >= len(alts):
            return None
        return text[:a] + alts[f['alt']] + text[b:]
    if k == 'delim':
        n = 2 if kk == 'comment' else 1
        if f['side'] == 0:
            return text[:a] + text[a + n:]
        return text[:b - n] + text[b:]
    return None


def load_bodies():
    out = []
    for path in sorted(glob.glob(os.path.join(VERIF, 'corpus', 'oal', '*.oal'))):
        with open(path, encoding='utf-8', newline='') as f:
            out.append((os.path.basename(path), f.read()))
    return out


def node_fields(node):
    return [(k, v) for k, v in sorted(vars(node).items()) if k not in ('position', 'character_stream')]


# which of these classes a `NS::name(args)` invocation becomes depends on the statement keyword around it
SAME_INVOCATION = ('ImplicitInvocationNode', 'ClassInvocationNode', 'BridgeInvocationNode', 'PortInvocationNode')


def struct(node, Node):
    '''structure of a tree without positions'''
    if isinstance(node, Node):
        name = type(node).__name__
        if name in SAME_INVOCATION:
            name = 'NamespaceInvocation'
        return (name, tuple((k, struct(v, Node)) for k, v in node_fields(node)))
    if isinstance(node, (list, tuple)):
        return tuple(struct(v, Node) for v in node)
    return node


def walk(node, Node, parent=None):
    if isinstance(node, Node):
        yield node, parent
        for k, v in node_fields(node):
            for x in walk(v, Node, node):
                yield x
    elif isinstance(node, (list, tuple)):
        for v in node:
            for x in walk(v, Node, parent):
                yield x


class OalFaultEngine(Engine):
    name = 'oalfault'
    props = ('C13',)
    WALL_S = 120.0
    SLOW_S = 2.0

    def setup(self, prop, tier):
        import bridgepoint.oal as oal
        import xtuml
        import xtuml.load
        self.oal = oal
        self.x = xtuml
        self.xload = xtuml.load
        self.parser = oal.OALParser()
        ply_dir = os.path.dirname(__import__('ply').__file__)
        self.meter = Meter([build.scratch_dir(), ply_dir])
        self.bodies = load_bodies()
        if not self.bodies:
            raise RuntimeError('HARNESS-ERROR: empty OAL corpus')

    SLICE = 300

    def plan(self, prop, tier):
        self.slices = {}
        for tr in ('quick', 'thorough'):
            out = []
            for b, (name, text) in enumerate(self.bodies):
                n = len(enumerate_faults(text))
                if tr == 'quick':
                    n = (n + 2) // 3
                for lo in range(0, n, self.SLICE):
                    out.append((b, lo, min(n, lo + self.SLICE)))
            self.slices[tr] = out
        n = len(self.slices[tier])
        if tier == 'quick':
            return {'runs': n, 'chunk': 2, 'wall_cap': 240, 'determinism_runs': 6, 'hard_s': 90}
        return {'runs': n * 3, 'chunk': 2, 'wall_cap': 3000, 'determinism_runs': 12, 'hard_s': 180}

    def describe(self, prop):
        return {
            'level': 'fault_enumeration',
            'evaluations': 'steps',     # an evaluation is one fault site, not one block
            # the thorough tier enumerates every single-fault site of the committed corpus (first pass)
            'exhaustive_in_thorough': True,
            'rule': ('one run = one OAL body of the committed corpus (%d bodies: repository test samples and hand-written '
                     'bodies covering every statement production); fault sites: truncation after every character, every '
                     'whitespace character flipped among space/tab/newline/CR, per token delete / duplicate / swap / '
                     'lexical-class flip / character flips, loss of either delimiter of comments and strings. Quick tier: '
                     'a seeded third of the sites; thorough: every site (pass 1), seeded double faults (pass 2) and every '
                     'site end to end through a model file on the simulated disk (pass 3). A case is the faulted text; '
                     'non-trivial when it differs from the original; distinct_nontrivial counts distinct faulted texts.'
                     % len(getattr(self, 'bodies', []) or load_bodies())),
            'components': {
                'real': ['bridgepoint.oal (PLY lexer and parser tables regenerated from the sources under test, '
                         'set_positional_info, parse)', 'xtuml.load (end-to-end route)', 'ply', 'CPython io stack'],
                'stub': ['disk below io.RawIOBase (SimDisk)'],
                'oracle': ['independent OAL tokenizer', 'offset -> line/column recomputation', 'span re-parse'],
            },
            'assumptions': [
                'positions are decided as self-consistency of the trees the fault runs produce; random program layouts are not generated (pure-function part of the property, outside this technique)',
                'lines are delimited by \\n; the line of a multi-line last token may be that of its first or last character',
                'regex back-tracking inside C is invisible to the step meter: bounded time falls back to a wall budget that is only believed after confirmation in a fresh process with three times the budget, and to the process watchdog',
            ],
        }

    def generate(self, prop, seed, tier, idx):
        if not getattr(self, 'slices', None):
            self.plan(prop, tier)
        sl = self.slices[tier]
        b, lo, hi = sl[idx % len(sl)]
        mode = idx // len(sl)          # 0 single, 1 double, 2 end-to-end
        name, text = self.bodies[b]
        # the order of the sites of a body is a pure function of (VERIF_SEED-independent) body index,
        # so that the slices of one body partition its sites
        order = random.Random(b * 7919 + 13)
        sites = enumerate_faults(text)
        order.shuffle(sites)
        rng = Streams(seed)['faults']
        ops = [{'k': 'none'}] if lo == 0 else []
        if mode == 1:
            ops += [{'k': 'double', 'f': [rng.choice(sites), rng.choice(sites)]} for _ in range(hi - lo)]
        else:
            ops += sites[lo:hi]
        if lo == 0 and b % 8 == 0:
            # pathological repetition probes, shortest first and before everything else
            redos = []
            for n in REDOS_N:
                for o in range(len(REDOS_OPEN)):
                    for u in range(len(REDOS_UNIT)):
                        if tier != 'quick' or (o + u + b // 8) % 3 == 0:
                            redos.append({'k': 'redos', 'o': o, 'u': u, 'n': n})
            ops = redos + [{'k': 'huge', 'i': i} for i in range(len(HUGE))] + ops
        cfg = {'body': name, 'e2e': 1.0 if mode == 2 else 0.04, 'route_seed': rng.getrandbits(32),
               'meter_every': 17, 'slow_s': self.SLOW_S, 'fresh_parser_every': 50}
        return {'prop': prop, 'engine': self.name, 'seed': seed, 'cfg': cfg, 'ops': ops}

    def relax_for_confirmation(self, case):
        case = Engine.relax_for_confirmation(self, case)
        case = dict(case)
        case['cfg'] = dict(case['cfg'])
        case['cfg']['slow_s'] = case['cfg'].get('slow_s', self.SLOW_S) * 3
        return case

    def sample(self, case):
        s = Engine.sample(self, case)
        s['ops'] = s['ops'][:10]
        return s

    # ------------------------------------------------------------------- execute
    def execute(self, case):
        oal = self.oal
        cfg = case['cfg']
        body = dict(self.bodies).get(cfg['body'])
        if body is None:
            raise RuntimeError('unknown corpus body %r' % cfg['body'])
        log = Log()
        faults, probes = {}, {}
        states = set()
        rrng = random.Random(cfg['route_seed'])
        guard = WallGuard()
        guard.arm(cfg.get('wall_s', self.WALL_S))
        violation = None
        step = -1
        lines = 0

        def bump(d, k, n=1):
            d[k] = d.get(k, 0) + n

        redos_dt = {}
        try:
            for step, op in enumerate(case['ops']):
                k = op['k']
                if k == 'none':
                    text = body
                elif k == 'huge':
                    text = HUGE[op['i'] % len(HUGE)]
                elif k == 'redos':
                    head = body[:body.find(';') + 1] if ';' in body[:200] else ''
                    text = head + '\n' + REDOS_OPEN[op['o']] + REDOS_UNIT[op['u']] * op['n']
                elif k == 'double':
                    text = body
                    for f in op['f']:
                        t2 = apply_fault(text, f)
                        if t2 is not None:
                            text = t2
                else:
                    text = apply_fault(body, op)
                if text is None or (k != 'none' and text == body):
                    continue
                bump(faults, 'F2_' + k)
                if k != 'none':
                    states.add(stable_hash(text))
                e2e = rrng.random() < cfg.get('e2e', 0)
                if e2e:
                    text = self.through_model_file(text, rrng, faults)
                metered = (step % cfg.get('meter_every', 9) == 0) and self.meter.available
                fresh = step % cfg.get('fresh_parser_every', 50) == 0
                t0 = time.perf_counter()
                tree = None
                outcome = None
                try:
                    if metered:
                        self.meter.start(200000 + 6000 * len(text))
                    try:
                        if fresh:
                            tree = oal.parse(text)
                            parsed_text = text + '\n'
                        else:
                            parsed_text = text + '\n'
                            tree = self.parser.text_input(parsed_text)
                    finally:
                        if metered:
                            lines += self.meter.stop()
                    outcome = 'tree'
                except oal.ParseException:
                    outcome = 'ParseException'
                except (Violation, SimStall):
                    raise
                except Exception as e:
                    import traceback
                    tb = traceback.extract_tb(e.__traceback__)
                    where = '%s:%d' % (tb[-1].filename.rsplit('/', 1)[-1], tb[-1].lineno)
                    raise Violation('parse-exception', 'fault %r on %s: parse raised %s: %s at %s -- text %r'
                                    % (op, cfg['body'], type(e).__name__, e, where, text[-160:]),
                                    'parse-exception:%s:%s' % (type(e).__name__, where))
                dt = time.perf_counter() - t0
                if dt > cfg.get('slow_s', self.SLOW_S) * (2 if metered else 1):     # line metering slows python code down
                    raise Violation('stall', 'fault %r on %s: parsing %d characters took %.1f s of wall time (budget %.1f s)'
                                    % (op, cfg['body'], len(text), dt, cfg.get('slow_s', self.SLOW_S)), 'stall:wall')
                if k == 'redos':
                    # growth, not only absolute time: the same opening and unit at the next smaller length (a third
                    # shorter at most) took far less -- super-linear cost whatever the load of the machine
                    prev = redos_dt.get((op['o'], op['u']))
                    if prev and op['n'] > prev[0] and dt > 0.4 and dt > 12 * max(prev[1], 0.002) * (op['n'] / prev[0]):
                        raise Violation('stall', 'fault %r on %s: parsing took %.2f s where %d repetitions took %.3f s: '
                                        'super-linear growth' % (op, cfg['body'], dt, prev[0], prev[1]), 'stall:growth')
                    redos_dt[(op['o'], op['u'])] = (op['n'], dt)
                bump(probes, '%s_%s' % (k, outcome))
                if tree is not None:
                    if not isinstance(tree, oal.Node):
                        raise Violation('parse-exception', 'fault %r: parse returned %r' % (op, type(tree).__name__),
                                        'parse-return')
                    n = self.check_positions(tree, parsed_text, op, cfg['body'])
                    bump(probes, 'nodes_checked', n)
                log.event(step, k, outcome, e2e)
        except Violation as v:
            violation = v.as_dict(step)
        except SimStall as s:
            op = case['ops'][step] if 0 <= step < len(case['ops']) else None
            violation = Violation('stall', 'fault %r on %s: parsing did not finish: %s' % (op, cfg['body'], s),
                                  'stall:%s' % s.kind).as_dict(step)
        finally:
            guard.disarm()
            self.meter.total = 0
        if violation:
            log.event('violation', violation['oracle'])
        return {'violation': violation, 'digest': log.hexdigest(), 'steps': step + 1, 'faults': faults,
                'probes': probes, 'states': states, 'nontrivial': bool(states), 'lines': lines}

    def through_model_file(self, text, rrng, faults):
        '''
        The body as it is actually stored: a string value of a model file on the
        simulated disk, loaded back by the real loader.
        '''
        x = self.x
        disk = SimDisk(random.Random(rrng.getrandbits(32)))
        disk.short_read = True
        disk.buffer_size = rrng.choice([None, 32, 4096])
        sql = ("CREATE TABLE S_SYNC (Sync_ID UNIQUE_ID, Name STRING, Action_Semantics_internal STRING, Suc_Pars INTEGER);\n"
               "INSERT INTO S_SYNC VALUES (\"00000000-0000-0000-0000-000000000001\", 'f', '%s', 1);\n"
               % text.replace("'", "''"))
        disk.put('/m/f.xtuml', sql)
        saved = getattr(self.xload, 'open', None)
        self.xload.open = disk.open
        try:
            loader = x.ModelLoader()
            loader.filename_input('/m/f.xtuml')
            m = loader.build_metamodel()
        finally:
            if saved is None:
                del self.xload.open
            else:
                self.xload.open = saved
        faults['F3_route_model_file'] = faults.get('F3_route_model_file', 0) + 1
        for k, v in disk.fired.items():
            faults[k] = faults.get(k, 0) + v
        return m.select_any('S_SYNC').Action_Semantics_internal

    def check_positions(self, tree, text, op, name):
        oal = self.oal
        Node = oal.Node
        toks = [(k, a, b) for k, a, b in tokenize(text) if k not in ('ws', 'comment', 'slcomment')]
        starts = set(a for _, a, b in toks)
        ends = set(b for _, a, b in toks)
        n = 0
        for node, parent in walk(tree, Node):
            pos = node.position
            if pos is None:
                continue
            n += 1
            cls = type(node).__name__
            s, e = pos.start_stream, pos.end_stream
            ctx = 'fault %r on %s: %s' % (op, name, cls)
            is_stmt = isinstance(parent, oal.StatementListNode)
            is_expr = cls in EXPR
            if not (is_stmt or is_expr):
                # list / clause nodes may be empty productions without a first and last token: the
                # statement speaks of statement and expression nodes only
                if 0 <= s <= e <= len(text) and node.character_stream != text[s:e]:
                    raise Violation('position', '%s records the substring %r, its offsets %d..%d give %r'
                                    % (ctx, node.character_stream, s, e, text[s:e]), 'position:substring')
                continue
            if not (0 <= s < e <= len(text)):
                raise Violation('position', '%s has offsets %r..%r (text of %d characters)'
                                % (ctx, s, e, len(text)), 'position:offsets')
            if node.character_stream != text[s:e]:
                raise Violation('position', '%s records the substring %r, its offsets %d..%d give %r'
                                % (ctx, node.character_stream, s, e, text[s:e]), 'position:substring')
            line = 1 + text.count('\n', 0, s)
            col = s - text.rfind('\n', 0, s)
            if (pos.start_line, pos.start_column) != (line, col):
                raise Violation('position', '%s %r starts at offset %d = line %d column %d, recorded line %s column %s'
                                % (ctx, text[s:e][:40], s, line, col, pos.start_line, pos.start_column),
                                'position:start-line' if pos.start_line != line else 'position:start-column')
            last = e - 1
            eline = 1 + text.count('\n', 0, last)
            ecol = last - text.rfind('\n', 0, last)
            # the line of a multi-line last token may be that of its first character
            alt_lines = {eline}
            for ti, (_, a, b) in enumerate(toks):
                if b == e:
                    alt_lines.add(1 + text.count('\n', 0, a))
                    # `end if` / `end for` / `end while` is one token of the language
                    if ti and text[a:b].lower() in ('if', 'for', 'while') and \
                            text[toks[ti - 1][1]:toks[ti - 1][2]].lower() == 'end' and \
                            not text[toks[ti - 1][2]:a].strip():
                        alt_lines.add(1 + text.count('\n', 0, toks[ti - 1][1]))
            if pos.end_line not in alt_lines or pos.end_column != ecol:
                raise Violation('position', '%s %r ends at offset %d = line %d column %d, recorded line %s column %s'
                                % (ctx, text[s:e][-40:], last, eline, ecol, pos.end_line, pos.end_column),
                                'position:end-line' if pos.end_line not in alt_lines else 'position:end-column')
            if s not in starts or e not in ends:
                raise Violation('position', '%s span %r (offsets %d..%d) does not begin and end on token boundaries'
                                % (ctx, text[s:e][:60], s, e), 'position:token-boundary')
            wrap = None
            if is_stmt:
                wrap = ('%s;', lambda t: t.block.statement_list.children[0]
                        if t.block.statement_list is not None and t.block.statement_list.children else None)
            elif is_expr:
                wrap = ('return %s;', lambda t: t.block.statement_list.children[0].expression)
            if wrap:
                src = wrap[0] % text[s:e]
                try:
                    again = wrap[1](self.parser.text_input(src + '\n'))
                except oal.ParseException as ex:
                    raise Violation('position', '%s span %r does not parse on its own: %s' % (ctx, text[s:e][:80], ex),
                                    'position:reparse-fails')
                if struct(again, Node) != struct(node, Node):
                    raise Violation('position', '%s span %r re-parses to a different node: %r vs %r'
                                    % (ctx, text[s:e][:80], struct(again, Node), struct(node, Node)),
                                    'position:reparse-differs')
        return n

    def reach_missing(self, prop, tier, probes, faults):
        missing = []
        for k in ('trunc', 'ws_flip', 'tok_del', 'tok_dup', 'tok_swap', 'tok_flip', 'chr_flip', 'delim', 'redos', 'layout'):
            if not probes.get(k + '_tree'):
                missing.append(k + '_tree')
            if not probes.get(k + '_ParseException'):
                missing.append(k + '_ParseException')
        if not probes.get('nodes_checked'):
            missing.append('nodes_checked')
        if not faults.get('F3_route_model_file'):
            missing.append('F3_route_model_file')
        return missing


ENGINE = OalFaultEngine()
