'''
Reference relational model (DESIGN.md §3.7) and schema generator (§3.9) used
by the `store` and `delivery` engines.  Trivial inside: rows are dicts, links
are lists of (referring, referred) handle pairs, queries are comprehensions.

The semantics implemented here are the *documented* ones (appendix §11 of
DESIGN.md); they were read from the code but are written independently of it.
'''
import random

CORE_TYPES = ('boolean', 'integer', 'real', 'string', 'unique_id')


def type_default(ty):
    return {'BOOLEAN': False, 'INTEGER': 0, 'REAL': 0.0, 'STRING': '', 'UNIQUE_ID': None}[ty.upper()]


def null_of(ty):
    return {'BOOLEAN': False, 'INTEGER': 0, 'REAL': 0.0, 'STRING': '', 'UNIQUE_ID': 0}[ty.upper()]


def is_null_key(value, ty):
    '''Null test of the loader join (C03): None; 0 for ids; '' for strings.'''
    if value is None:
        return True
    ty = ty.upper()
    if ty == 'UNIQUE_ID':
        return value == 0
    if ty == 'STRING':
        return value == ''
    return False


class RefError(Exception):
    '''An exception the reference predicts; `cls` is the name of the xtuml exception class.'''
    def __init__(self, cls, why=''):
        Exception.__init__(self, '%s %s' % (cls, why))
        self.cls = cls
        self.why = why


# --------------------------------------------------------------------------
# schema
# --------------------------------------------------------------------------
class Schema(object):
    '''
    classes : list of {'kind', 'attrs': [[name, type], ...], 'bad': bool}
    assocs  : list of {'rel': int, 'src','src_keys','src_many','src_cond','src_phrase',
                       'tgt','tgt_keys','tgt_many','tgt_cond','tgt_phrase'}
              (src is the referring/formalising class and owns src_keys)
    uniques : list of {'kind','name','attrs'}
    '''
    def __init__(self, doc):
        self.doc = doc
        self.classes = doc['classes']
        self.assocs = doc['assocs']
        self.uniques = doc['uniques']
        self.by_kind = {c['kind'].upper(): c for c in self.classes}

    def cls(self, kind):
        return self.by_kind[kind.upper()]

    def attrs(self, kind):
        return [tuple(a) for a in self.cls(kind)['attrs']]

    def attr_type(self, kind, name):
        for n, t in self.cls(kind)['attrs']:
            if n.upper() == name.upper():
                return t
        return None

    def declared(self, kind, name):
        for n, _ in self.cls(kind)['attrs']:
            if n.upper() == name.upper():
                return n
        return None

    def referential(self, kind):
        '''declared names of referential attributes of a class, in formalisation order of use'''
        out = []
        for a in self.assocs:
            if a['src'].upper() == kind.upper():
                for k in a['src_keys']:
                    if k not in out:
                        out.append(k)
        return out

    def identifying(self, kind):
        out = set()
        for u in self.uniques:
            if u['kind'].upper() == kind.upper():
                out |= set(u['attrs'])
        for a in self.assocs:
            if a['tgt'].upper() == kind.upper():
                out |= set(a['tgt_keys'])
        return out

    def reflexive(self, a):
        return a['src'].upper() == a['tgt'].upper()

    def rel_name(self, a):
        return 'R%d' % a['rel']


def gen_schema(rng, want=None, types_upper=None, profile=None):
    '''
    Draw a schema made of the association shapes of C02's quantifier.  `want`
    forces shapes in; `profile` tunes for a property.
    '''
    profile = profile or {}
    shapes_all = ['one_one', 'one_many', 'reflexive', 'assoc_class', 'subsuper', 'shared_ref',
                  'multi_key', 'reflexive_many', 'chain_key', 'alt_key', 'multi_key_twice', 'reflexive_twice',
                  'assoc_class_reflexive']
    shapes = [s for s in shapes_all if rng.random() < profile.get('p_shape', 0.45)]
    for w in (want or []):
        if w not in shapes:
            shapes.append(w)
    if not shapes:
        shapes = [rng.choice(shapes_all)]
    rng.shuffle(shapes)
    shapes = shapes[:profile.get('max_shapes', 4)]
    for w in (want or []):
        if w not in shapes:
            shapes.append(w)

    def T(t):
        if types_upper is None:
            r = rng.random()
            return t.upper() if r < 0.4 else (t if r < 0.85 else t.capitalize())
        return t.upper() if types_upper else t

    classes, assocs, uniques = [], [], []
    counter = {'k': 0, 'r': 0}

    def mk_class(extra=None, id_type='unique_id', with_id=True, prefix='K'):
        kind = '%s%d' % (prefix, counter['k'])
        if rng.random() < profile.get('p_mixed_kind', 0.2):
            kind = '%sx%d' % (prefix, counter['k'])     # key letters are not all upper case
        counter['k'] += 1
        attrs = []
        if with_id:
            attrs.append(['Id', T(id_type)])
        pool = [['Nm', 'string'], ['Val', 'integer'], ['Flag', 'boolean'], ['Amt', 'real'], ['Tag', 'string'],
                ['Oid', 'unique_id'], ['_Aux', 'string'], ['N_2', 'integer'],
                # named like the parameters of the constructor API
                ['Kind', 'integer'], ['Self', 'string']]
        n = rng.randint(0, profile.get('max_plain', 3))
        for a in rng.sample(pool, n):
            attrs.append([a[0], T(a[1])])
        for a in (extra or []):
            attrs.insert(rng.randint(0, len(attrs)), [a[0], T(a[1])])
        c = {'kind': kind, 'attrs': attrs}
        classes.append(c)
        if with_id and rng.random() < profile.get('p_unique', 0.8):
            uniques.append({'kind': kind, 'name': 'I1', 'attrs': ['Id']})
        return c

    def rel():
        counter['r'] += 1
        return counter['r']

    def bools():
        return rng.random() < 0.5

    def assoc(src, src_keys, tgt, tgt_keys, src_many, src_cond, tgt_cond, src_phrase='', tgt_phrase='',
              r=None, tgt_many=False):
        a = {'rel': r if r is not None else rel(),
             'src': src['kind'], 'src_keys': list(src_keys), 'src_many': src_many, 'src_cond': src_cond,
             'src_phrase': src_phrase,
             'tgt': tgt['kind'], 'tgt_keys': list(tgt_keys), 'tgt_many': tgt_many, 'tgt_cond': tgt_cond,
             'tgt_phrase': tgt_phrase}
        assocs.append(a)
        return a

    id_types = profile.get('id_types', ['unique_id', 'unique_id', 'unique_id', 'integer', 'string'])
    p_phrase = profile.get('p_phrase', 0.12)

    def phrases():
        '''non-reflexive associations may carry phrases too: on both ends or on one end only'''
        r = rng.random()
        if r >= p_phrase:
            return '', ''
        return rng.choice([('has', 'belongs to'), ('owns', ''), ('', 'is owned by')])

    def reflexive_phrases(a, b):
        # a phrase may be missing on one end; the two ends always differ
        r = rng.random()
        if r < p_phrase / 2:
            return a, ''
        if r < p_phrase:
            return '', b
        return a, b

    for shape in shapes:
        idt = rng.choice(id_types)
        if shape in ('one_one', 'one_many'):
            a = mk_class(id_type=idt)
            b = mk_class(extra=[['A_Id', idt]], id_type=rng.choice(id_types))
            sp, tp = phrases()
            assoc(b, ['A_Id'], a, ['Id'], shape == 'one_many', bools(), bools(), sp, tp)
        elif shape in ('reflexive', 'reflexive_many'):
            n = mk_class(extra=[['Prev_Id', idt]], id_type=idt, prefix='N')
            # the referring instance reads Prev_Id = Id of the instance it "succeeds"
            if shape == 'reflexive':
                sp, tp = reflexive_phrases('succeeds', 'precedes')
                assoc(n, ['Prev_Id'], n, ['Id'], False, True, True, sp, tp)
            else:
                sp, tp = reflexive_phrases('is_child_of', 'is_parent_of')
                assoc(n, ['Prev_Id'], n, ['Id'], True, True, True, sp, tp)
        elif shape == 'reflexive_twice':
            # two reflexive 1:1 associations on one class (e.g. document order and priority order)
            n = mk_class(extra=[['Prev_Id', idt], ['Alt_Id', idt]], id_type=idt, prefix='N')
            if rng.random() < 0.4:
                # both orders use the same pair of phrases: only the number tells them apart
                assoc(n, ['Alt_Id'], n, ['Id'], False, True, True, 'succeeds', 'precedes')
            else:
                assoc(n, ['Alt_Id'], n, ['Id'], False, True, True, 'outranks', 'is outranked by')
            assoc(n, ['Prev_Id'], n, ['Id'], False, True, True, 'succeeds', 'precedes')
        elif shape == 'alt_key':
            # one class referred to through two different identifiers by equally named referential attributes
            t2 = rng.choice(['integer', 'string', 'unique_id'])
            t = mk_class(extra=[['Code', t2]], id_type=idt)
            uniques.append({'kind': t['kind'], 'name': 'I2', 'attrs': ['Code']})
            a = mk_class(extra=[['T_Ref', idt]], id_type=rng.choice(id_types))
            b = mk_class(extra=[['T_Ref', t2]], id_type=rng.choice(id_types))
            assoc(a, ['T_Ref'], t, ['Id'], bools(), bools(), bools())
            assoc(b, ['T_Ref'], t, ['Code'], bools(), bools(), bools())
        elif shape == 'multi_key_twice':
            # the same two-attribute identifier referred to by two associations that list the keys in different orders
            t2 = rng.choice(['integer', 'string', 'unique_id'])
            a = mk_class(extra=[['Id2', t2]], id_type=idt)
            uniques.append({'kind': a['kind'], 'name': 'I2', 'attrs': ['Id', 'Id2']})
            b = mk_class(extra=[['A_Id', idt], ['A_Id2', t2]], id_type=rng.choice(id_types))
            c = mk_class(extra=[['A_Id', idt], ['A_Id2', t2]], id_type=rng.choice(id_types))
            assoc(b, ['A_Id', 'A_Id2'], a, ['Id', 'Id2'], bools(), bools(), bools())
            assoc(c, ['A_Id2', 'A_Id'], a, ['Id2', 'Id'], bools(), bools(), bools())
        elif shape == 'assoc_class':
            a = mk_class(id_type=idt)
            b = mk_class(id_type=idt)
            l = mk_class(extra=[['A_Id', idt], ['B_Id', idt]], with_id=bools(), prefix='L')
            r = rel()
            m1, c1, m2, c2 = bools(), bools(), bools(), bools()
            assoc(l, ['A_Id'], a, ['Id'], m2, c2, False, r=r)
            assoc(l, ['B_Id'], b, ['Id'], m1, c1, False, r=r)
            if rng.random() < 0.5:
                uniques.append({'kind': l['kind'], 'name': 'I2', 'attrs': ['A_Id', 'B_Id']})
        elif shape == 'assoc_class_reflexive':
            # association class between a class and itself: two formalisations of one number with crossing phrases
            a = mk_class(id_type=idt)
            l = mk_class(extra=[['One_Id', idt], ['Other_Id', idt]], with_id=bools(), prefix='L')
            r = rel()
            m1, c1 = bools(), bools()
            assoc(l, ['One_Id'], a, ['Id'], m1, c1, False, 'one', 'other', r=r)
            assoc(l, ['Other_Id'], a, ['Id'], m1, c1, False, 'other', 'one', r=r)
        elif shape == 'subsuper':
            s = mk_class(id_type=idt, prefix='S')
            r = rel()
            for _ in range(rng.choice([1, 2, 2, 3])):
                t = mk_class(extra=[['Id', idt]], with_id=False, prefix='T')
                uniques.append({'kind': t['kind'], 'name': 'I1', 'attrs': ['Id']})
                assoc(t, ['Id'], s, ['Id'], False, True, False, r=r)
        elif shape == 'shared_ref':
            a = mk_class(id_type=idt)
            b = mk_class(id_type=idt)
            c = mk_class(extra=[['P_Id', idt]], id_type=rng.choice(id_types))
            assoc(c, ['P_Id'], a, ['Id'], bools(), True, bools())
            assoc(c, ['P_Id'], b, ['Id'], bools(), True, bools())
        elif shape == 'multi_key':
            t2 = rng.choice(['integer', 'string', 'unique_id', 'boolean', 'real'] if profile.get('all_key_types')
                            else ['integer', 'string', 'unique_id'])
            if rng.random() < 0.4:
                t2 = idt        # both components of one type: (1, 2) and (2, 1) are different keys
            a = mk_class(extra=[['Id2', t2]], id_type=idt)
            uniques.append({'kind': a['kind'], 'name': 'I2', 'attrs': ['Id', 'Id2']})
            b = mk_class(extra=[['A_Id', idt], ['A_Id2', t2]], id_type=rng.choice(id_types))
            keys = [['A_Id', 'A_Id2'], ['Id', 'Id2']]
            if rng.random() < 0.3:
                keys = [['A_Id2', 'A_Id'], ['Id2', 'Id']]
            assoc(b, keys[0], a, keys[1], bools(), bools(), bools())
        elif shape == 'chain_key':
            # X refers to T whose identifier is itself referential (refers to S)
            s = mk_class(id_type=idt, prefix='S')
            t = mk_class(extra=[['Id', idt]], with_id=False, prefix='T')
            uniques.append({'kind': t['kind'], 'name': 'I1', 'attrs': ['Id']})
            assoc(t, ['Id'], s, ['Id'], False, True, False)
            x = mk_class(extra=[['T_Id', idt]], id_type=rng.choice(id_types))
            assoc(x, ['T_Id'], t, ['Id'], bools(), bools(), bools())

    if profile.get('bad_type') and rng.random() < profile['bad_type']:
        classes.append({'kind': 'Bad%d' % counter['k'], 'bad': True,
                        'attrs': [['Id', T('unique_id')], ['Weird', rng.choice(['void', 'inst_ref', 'date', 'int', 'bool', 'str', 'id', 'unique', 'e', 'eger',
                                                                       'string_', 'Real8', 'uniqueid'])]]})
    # names are case-insensitive: "some other tool" may spell a key attribute in CREATE ROP / CREATE UNIQUE INDEX (or
    # in define_association / define_unique_identifier) differently from the column in CREATE TABLE.  The declared
    # spelling stays in src_keys / tgt_keys / attrs (what the reference uses); the *_as lists are what is written.
    respell_draw = rng.random()
    if respell_draw < profile.get('p_respell', 0.15):
        r2 = random.Random(int(respell_draw * 2 ** 40))

        def respell(n):
            return r2.choice([n.upper(), n.lower(), n.swapcase()])
        for a in assocs:
            if r2.random() < 0.6:
                a['src_keys_as'] = [respell(k) for k in a['src_keys']]
            if r2.random() < 0.35:
                a['tgt_keys_as'] = [respell(k) for k in a['tgt_keys']]
        for u in uniques:
            if r2.random() < 0.5:
                u['attrs_as'] = [respell(k) for k in u['attrs']]
    return {'classes': classes, 'assocs': assocs, 'uniques': uniques}


# --------------------------------------------------------------------------
# the reference store
# --------------------------------------------------------------------------
class Row(object):
    __slots__ = ('h', 'kind', 'values', 'alive', 'unset')

    def __init__(self, h, kind):
        self.h = h
        self.kind = kind
        self.values = {}        # declared name -> value, non-referential attributes only
        self.unset = set()      # declared names deleted with delattr
        self.alive = True


class RefStore(object):
    def __init__(self, schema, idgen):
        self.schema = schema if isinstance(schema, Schema) else Schema(schema)
        self.idgen = idgen
        self.rows = {}                      # handle -> Row
        self.pool = {c['kind'].upper(): [] for c in self.schema.classes}
        self.pairs = [[] for _ in self.schema.assocs]     # per assoc: list of (referring h, referred h)
        self.adopted = {}                   # (assoc, handle, from_referring) -> order shown by the implementation

    # ---- helpers
    def live(self, kind):
        return list(self.pool[kind.upper()])

    def row(self, h):
        return self.rows[h]

    def kind_of(self, h):
        return self.rows[h].kind

    def find_link(self, k1, k2, rel, phrase):
        '''
        Resolve (kind of first operand, kind of second operand, rel, phrase) to
        (assoc index, first_is_referred).  Mirrors the documented resolution:
        associations in definition order; for each, first the reading "first
        operand is the referred instance" (phrase = tgt_phrase), then "first
        operand is the referring instance" (phrase = src_phrase).
        '''
        if isinstance(rel, int):
            rel = 'R%d' % rel
        for i, a in enumerate(self.schema.assocs):
            if 'R%d' % a['rel'] != rel:
                continue
            if a['tgt'].upper() == k1.upper() and a['src'].upper() == k2.upper() and a['tgt_phrase'] == phrase:
                return i, True
            if a['src'].upper() == k1.upper() and a['tgt'].upper() == k2.upper() and a['src_phrase'] == phrase:
                return i, False
        raise RefError('UnknownLinkException', '%s->%s[%s,%r]' % (k1, k2, rel, phrase))

    def partners(self, i, h, from_referring):
        '''handles linked to h across assoc i; from_referring: h is on the referring side'''
        if from_referring:
            base = [t for s, t in self.pairs[i] if s == h]
        else:
            base = [s for s, t in self.pairs[i] if t == h]
        if len(base) > 1:
            o = self.adopted.get((i, h, from_referring))
            if o is not None and len(o) == len(base) and set(o) == set(base):
                return list(o)
        return base

    def adopt_order(self, i, h, from_referring, order):
        '''single-hop result order is not fixed by any statement: take over what the implementation shows'''
        self.adopted[(i, h, from_referring)] = list(order)

    # ---- operations
    def new(self, kind, h, args=(), kwargs=None, defaults_from=None):
        '''
        args: positional values; kwargs: list of (spelling, value) in call order.
        Returns the handle; raises RefError for documented rejections.
        '''
        sch = self.schema
        c = sch.cls(kind)
        row = Row(h, c['kind'])
        refs = sch.referential(c['kind'])
        self.rows[h] = row
        self.pool[c['kind'].upper()].append(h)
        defaulted = {}
        for name, ty in c['attrs']:
            if name in refs:
                continue
            if ty.upper() not in ('BOOLEAN', 'INTEGER', 'REAL', 'STRING', 'UNIQUE_ID'):
                # documented: rejected.  (The reference keeps no half-built row.)
                del self.rows[h]
                self.pool[c['kind'].upper()].remove(h)
                raise RefError('MetaException', 'unknown type %s' % ty)
            if ty.upper() == 'UNIQUE_ID':
                v = self.idgen.next()
                defaulted[name] = v
            else:
                v = type_default(ty)
            row.values[name] = v
        given_refs = {}
        for (name, ty), v in zip(c['attrs'], args):
            if name in refs:
                given_refs[name] = v
            else:
                row.values[name] = v
                defaulted.pop(name, None)
        for spelling, v in (kwargs or []):
            name = sch.declared(c['kind'], spelling)
            if name in refs:
                given_refs[name] = v
            elif name is not None:
                row.values[name] = v
                defaulted.pop(name, None)
        row_defaulted = defaulted
        # referential arguments: link to every referred instance whose identifying values match
        if given_refs:
            for i, a in enumerate(sch.assocs):
                if a['src'].upper() != c['kind'].upper():
                    continue
                if not all(k in given_refs for k in a['src_keys']):
                    continue
                # null referential values refer to nothing (same rule as the loader join)
                if any(is_null_key(given_refs[k], self.schema.attr_type(c['kind'], k)) for k in a['src_keys']):
                    continue
                for t in self.live(a['tgt']):
                    if all(self.getattr(t, tk) == given_refs[sk]
                           for sk, tk in zip(a['src_keys'], a['tgt_keys'])):
                        self._relate_pair(i, h, t)
        return row_defaulted

    def _relate_pair(self, i, referring, referred):
        a = self.schema.assocs[i]
        if (referring, referred) in self.pairs[i]:
            return
        if not a['src_many'] and self.partners(i, referred, False):
            raise RefError('RelateException', 'referred instance already has a partner on a single-valued end')
        if not a['tgt_many'] and self.partners(i, referring, True):
            raise RefError('RelateException', 'referring instance already has a partner on a single-valued end')
        self.pairs[i].append((referring, referred))

    def relate(self, h1, h2, rel, phrase=''):
        if h1 is None or h2 is None:
            return False
        i, first_is_referred = self.find_link(self.kind_of(h1), self.kind_of(h2), rel, phrase)
        referred, referring = (h1, h2) if first_is_referred else (h2, h1)
        self._relate_pair(i, referring, referred)
        return True

    def unrelate(self, h1, h2, rel, phrase=''):
        if h1 is None or h2 is None:
            return False
        i, first_is_referred = self.find_link(self.kind_of(h1), self.kind_of(h2), rel, phrase)
        referred, referring = (h1, h2) if first_is_referred else (h2, h1)
        if (referring, referred) not in self.pairs[i]:
            raise RefError('UnrelateException')
        self.pairs[i].remove((referring, referred))
        return True

    def delete(self, h):
        row = self.rows[h]
        if not row.alive:
            raise RefError('DeleteException')
        row.alive = False
        self.pool[row.kind.upper()].remove(h)
        for i in range(len(self.pairs)):
            self.pairs[i] = [(s, t) for s, t in self.pairs[i] if s != h and t != h]

    def setattr(self, h, spelling, value):
        row = self.rows[h]
        name = self.schema.declared(row.kind, spelling)
        if name is None:
            raise KeyError(spelling)
        if name in self.schema.referential(row.kind):
            raise RefError('MetaException', 'referential attribute')
        row.values[name] = value
        row.unset.discard(name)

    def delattr(self, h, spelling):
        row = self.rows[h]
        name = self.schema.declared(row.kind, spelling)
        if name in row.values:
            del row.values[name]
            row.unset.add(name)
            return True
        return False

    # ---- reads
    def ref_candidates(self, h, name):
        '''
        Values a referential attribute may legitimately read as: the
        identifying value of a linked instance across any association that
        uses the attribute; [None] when there is no such link.  The first
        element is what the documented resolution order gives (association
        formalised last is consulted first, first link of the instance).
        '''
        row = self.rows[h]
        out = []
        for i in range(len(self.schema.assocs) - 1, -1, -1):
            a = self.schema.assocs[i]
            if a['src'].upper() != row.kind.upper() or name not in a['src_keys']:
                continue
            tk = a['tgt_keys'][a['src_keys'].index(name)]
            for t in self.partners(i, h, True):
                out.append(self.read_or_none(t, tk))
        return out or [None]

    def getattr(self, h, spelling, _depth=0):
        row = self.rows[h]
        name = self.schema.declared(row.kind, spelling)
        if name is None:
            raise KeyError(spelling)
        if name in self.schema.referential(row.kind):
            if _depth > 8:
                return None
            return self.ref_candidates(h, name)[0]
        if name in row.unset:
            raise RefError('AttributeError')
        return row.values[name]

    def is_referential(self, kind, spelling):
        name = self.schema.declared(kind, spelling)
        return name in self.schema.referential(kind)

    # ---- navigation / queries
    def hop(self, handles, kind, rel, phrase=''):
        '''
        One navigation step from a sequence of handles to instances of `kind`
        across rel/phrase: per-instance results concatenated in encounter
        order (duplicates kept; the caller de-duplicates at the end, like a
        set built from the chain).  Raises RefError(UnknownLinkException).
        '''
        if isinstance(rel, int):
            rel = 'R%d' % rel
        out = []
        for h in handles:
            out.extend(self.hop_one(h, kind, rel, phrase))
        return out

    def hop_one(self, h, kind, rel, phrase):
        sch = self.schema
        k = self.kind_of(h)
        direct = []
        found = False
        # direct link: an association end of class k leading to `kind` with that phrase
        for i, a in enumerate(sch.assocs):
            if 'R%d' % a['rel'] != rel:
                continue
            if a['src'].upper() == k.upper() and a['tgt'].upper() == kind.upper() and a['src_phrase'] == phrase:
                found = True
                direct = self.partners(i, h, True)
            # a later definition with the same key overwrites the earlier one (same dict key)
            if a['tgt'].upper() == k.upper() and a['src'].upper() == kind.upper() and a['tgt_phrase'] == phrase:
                found = True
                direct = self.partners(i, h, False)
        if found:
            return direct
        # two-hop through an association class: k -> L (rel, phrase) then L -> kind (rel, phrase)
        for i, a in enumerate(sch.assocs):
            if 'R%d' % a['rel'] != rel or a['tgt'].upper() != k.upper() or a['tgt_phrase'] != phrase:
                continue
            lk = a['src']
            for j, b in enumerate(sch.assocs):
                if j == i or 'R%d' % b['rel'] != rel:
                    continue
                if b['src'].upper() == lk.upper() and b['tgt'].upper() == kind.upper() and b['src_phrase'] == phrase:
                    out = []
                    for l in self.partners(i, h, False):
                        for t in self.partners(j, l, True):
                            if t not in out:
                                out.append(t)
                    return out
        raise RefError('UnknownLinkException', '%s->%s[%s,%r]' % (k, kind, rel, phrase))

    @staticmethod
    def dedup(handles):
        out = []
        for h in handles:
            if h not in out:
                out.append(h)
        return out

    # ---- consistency counts straight from the statement of C11
    def association_violations(self, rel=None):
        if isinstance(rel, int):
            rel = 'R%d' % rel
        n = 0
        for i, a in enumerate(self.schema.assocs):
            if rel is not None and 'R%d' % a['rel'] != rel:
                continue
            # end 1: each referred-class instance and its referring partners
            for t in self.live(a['tgt']):
                c = len(self.partners(i, t, False))
                if (c == 0 and not a['src_cond']) or (c > 1 and not a['src_many']):
                    n += 1
            for s in self.live(a['src']):
                c = len(self.partners(i, s, True))
                if (c == 0 and not a['tgt_cond']) or (c > 1 and not a['tgt_many']):
                    n += 1
        return n

    def read_or_none(self, h, name):
        try:
            return self.getattr(h, name)
        except RefError:
            return None

    def identifier_violations(self, kind=None):
        '''
        Returns (lo, hi): the statement leaves two readings open (an instance
        repeating under two identifiers counted once or per identifier; the
        empty string as the null of a string identifier).
        '''
        lo = hi = 0
        for c in self.schema.classes:
            if c.get('bad'):
                continue
            if kind is not None and c['kind'].upper() != kind.upper():
                continue
            ident = self.schema.identifying(c['kind'])
            uniq = [u for u in self.schema.uniques if u['kind'].upper() == c['kind'].upper()]
            seen = {u['name']: [] for u in uniq}
            for h in self.live(c['kind']):
                for name, ty in c['attrs']:
                    if name not in ident:
                        continue
                    v = self.read_or_none(h, name)
                    if v is None or (ty.upper() == 'UNIQUE_ID' and v == 0):
                        lo += 1
                        hi += 1
                    elif ty.upper() == 'STRING' and v == '':
                        hi += 1
                reps = 0
                for u in uniq:
                    key = tuple(self.read_or_none(h, n) for n in u['attrs'])
                    if key in seen[u['name']]:
                        reps += 1
                    # the last instance with a key is remembered; membership is what matters
                    seen[u['name']].append(key)
                if reps:
                    lo += 1
                    hi += reps
        return lo, hi


# --------------------------------------------------------------------------
# id generators
# --------------------------------------------------------------------------
def preload(ref, rows, pairs):
    '''
    Initial state of a reference store that was *loaded*: rows (with stored referential values, which are
    dropped) and the link pairs the join by definition gives.  Handles are 'p<row>'.
    '''
    sch = ref.schema
    for r in rows:
        h = 'p%d' % r['row']
        row = Row(h, sch.cls(r['kind'])['kind'])
        refs = sch.referential(r['kind'])
        for name, ty in sch.attrs(r['kind']):
            if name in refs:
                continue
            v = r['values'][name]
            if ty.upper() == 'REAL' and v is not None:
                v = float('%f' % v)
            row.values[name] = v
        ref.rows[h] = row
        ref.pool[row.kind.upper()].append(h)
    for i, ps in enumerate(pairs):
        for s, t in sorted(ps):
            ref.pairs[i].append(('p%d' % s, 'p%d' % t))


class RefIntegerGen(object):
    def __init__(self):
        self.cur = 1

    def skip(self, n):
        self.cur += n

    def peek(self):
        return self.cur

    def next(self):
        v = self.cur
        self.cur += 1
        return v


class RefSequenceGen(object):
    '''k-th next() returns seq(k); used for the entropy-backed and the user generator.'''
    def __init__(self, seq):
        self.seq = seq
        self.k = 0

    def skip(self, n):
        self.k += n

    def peek(self):
        return self.seq(self.k)

    def next(self):
        v = self.seq(self.k)
        self.k += 1
        return v
