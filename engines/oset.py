'''
Engine `oset` -- property C17 (DESIGN.md §4/C17).

Two or three OrderedSet / QuerySet objects over a universe of six hashable
elements, one plain Python list without duplicates (RefSet) beside each.
1-3 logical clients issue the operations in a seeded interleaving; one of the
things a client can hold across scheduler steps is a *live iterator*, resumed
one element at a time, which may remove the element it has just been given
(fault kind F7) while the other clients keep mutating the other sets.
Rejected calls (F1: remove of a missing element, pop on an empty set) must
raise KeyError and leave the set as it was.

Order is compared only where the statement fixes it: elements that arrived
one at a time, through the constructor, or by in-place union.  For the result
of a binary operator and for the new elements of ^= the reference *adopts* the
order the real set shows, after checking the content as a mathematical set
and that surviving elements kept their relative order.
'''
from sim.engine import Engine, Log, Violation, stable_hash
from sim.meter import SimStall, WallGuard
from sim.rng import Streams, weighted

UNIVERSE_N = 6


class Elem(object):
    '''An element hashed by identity, like an xtuml instance.'''
    __slots__ = ('i',)

    def __init__(self, i):
        self.i = i

    def __repr__(self):
        return 'E%d' % self.i


def make_universe(kind):
    if kind == 'int':
        return [10, 11, 12, 13, 14, 15]
    if kind == 'str':
        return ['a', 'b', 'c', 'dd', 'e', '']
    if kind == 'mixed':
        return [0, None, 'a', 'b', ('t', 1), 2.5]      # None is an element like any other
    if kind == 'obj':
        return [Elem(i) for i in range(UNIVERSE_N)]
    raise ValueError(kind)


MUTATORS = ('add', 'discard', 'remove', 'pop', 'clear', 'ior', 'iand', 'isub', 'ixor',
            'new', 'binop')
OP_KINDS = ('ior_fail', 'add', 'discard', 'remove', 'pop', 'clear', 'ior', 'iand', 'isub', 'ixor',
            'new', 'binop', 'eq', 'cmp', 'observe', 'iter_open', 'iter_next', 'iter_close',
            'bad_remove', 'bad_pop')


class OsetEngine(Engine):
    name = 'oset'
    props = ('C17',)
    WALL_S = 3.0

    def plan(self, prop, tier):
        if tier == 'quick':
            return {'runs': 100000, 'chunk': 500, 'wall_cap': 150, 'determinism_runs': 500}
        return {'runs': 3000000, 'chunk': 2000, 'wall_cap': 1500, 'determinism_runs': 5000}

    def describe(self, prop):
        return {
            'level': 'exploration',
            'rule': ('seeded operation histories (15-70 steps, 1-3 interleaved clients, 2-3 sets of class '
                     'OrderedSet/QuerySet over a 6-element universe; swarm-chosen op mix, element kind and '
                     'fault rate) executed against the real xtuml.OrderedSet/QuerySet and a list-based '
                     'reference, every observer compared after every step. A state is the tuple of the '
                     'reference contents of all sets after a step; it is non-trivial when some set holds '
                     '>= 2 elements. distinct_nontrivial counts distinct non-trivial states over the batch.'),
            'components': {
                'real': ['xtuml.tools.OrderedSet', 'xtuml.meta.QuerySet',
                         'collections.abc.MutableSet mixins (CPython)'],
                'stub': [],
                'oracle': ['RefSet: Python list without duplicates'],
            },
            'assumptions': [
                'pre-emption granularity is the API call; pyxtuml has no threads',
                'a live iterator only sees removal of the element it has just yielded (what the statement covers)',
                'order of binary-operator results and of elements added by ^= is not fixed by the statement and is adopted from the implementation after a content check',
            ],
        }

    # ------------------------------------------------------------------ generate
    def generate(self, prop, seed, tier, idx):
        st = Streams(seed)
        sw = st['swarm']
        nsets = sw.choice([2, 3, 3])
        disabled = [k for k in ('clear', 'iand', 'isub', 'ixor', 'binop', 'new', 'cmp', 'pop')
                    if sw.random() < 0.25]
        cfg = {
            'universe': sw.choice(['int', 'str', 'mixed', 'obj', 'obj']),
            'classes': [sw.choice(['OrderedSet', 'QuerySet']) for _ in range(nsets)],
            'clients': sw.choice([1, 2, 3]),
            'steps': sw.randint(15, 70) if tier == 'quick' or sw.random() < 0.8 else sw.randint(70, 300),
            'p_fault': sw.choice([0.0, 0.05, 0.12]),
            'p_iter': sw.choice([0.0, 0.1, 0.25]),
            'disabled': disabled,
        }
        rng = st['ops']
        sched = st['sched']
        sets = [[] for _ in range(nsets)]       # generation-time membership model
        iters = {}                                # it id -> slot
        next_it = 0
        ops = []

        def other_operand(s):
            r = rng.random()
            if r < 0.5:
                return {'k': 'slot', 't': rng.randrange(nsets)}
            n = rng.randint(0, 4)
            els = rng.sample(range(UNIVERSE_N), n)
            if els and rng.random() < 0.3:
                # an iterable operand may mention an element more than once: it still denotes a set
                els.insert(rng.randint(0, len(els)), rng.choice(els))
            return {'k': rng.choice(['list', 'tuple', 'gen']), 'e': els}

        def operand_elems(o):
            if o['k'] == 'slot':
                return list(sets[o['t']])
            out = []
            for e in o['e']:
                if e not in out:
                    out.append(e)
            return out

        for _ in range(cfg['steps']):
            actor = sched.randrange(cfg['clients'])
            busy = set(iters.values())
            free = [s for s in range(nsets) if s not in busy]
            table = [(6, 'add'), (3, 'discard'), (2, 'remove'), (2, 'pop'), (0.4, 'clear'),
                     (2, 'ior'), (1, 'iand'), (1, 'isub'), (1, 'ixor'), (0.7, 'new'),
                     (2, 'binop'), (2, 'eq'), (1, 'cmp'), (1, 'observe')]
            table = [(w, k) for w, k in table if k not in disabled]
            if cfg['p_fault']:
                table += [(cfg['p_fault'] * 12, 'bad_remove'), (cfg['p_fault'] * 6, 'bad_pop'),
                          (cfg['p_fault'] * 5, 'bad_ior')]
            if cfg['p_iter'] and free:
                table.append((cfg['p_iter'] * 10, 'iter_open'))
            if iters:
                table.append((10 * len(iters), 'iter_next'))
                table.append((0.5, 'iter_close'))
            kind = weighted(rng, table)
            op = {'a': actor, 'op': kind}

            if kind in ('iter_next', 'iter_close'):
                it = rng.choice(sorted(iters))
                op['it'] = it
                if kind == 'iter_next':
                    op['rm'] = weighted(rng, [(5, None), (2, 'discard'), (1, 'remove'),
                                              (1, 'isub'), (1, 'pop')])
                    if op['rm'] and rng.random() < 0.3:
                        # "replace" in the loop body: the visited element goes, another one comes
                        op['add'] = rng.randrange(UNIVERSE_N)
                else:
                    del iters[it]
                ops.append(op)
                continue
            if kind == 'iter_open':
                s = rng.choice(free)
                op.update(s=s, dir=rng.choice(['f', 'r']), it=next_it)
                iters[next_it] = s
                next_it += 1
                ops.append(op)
                continue
            if kind in ('eq', 'cmp', 'observe'):
                s = rng.randrange(nsets)
                op['s'] = s
                if kind == 'eq':
                    op['o'] = weighted(rng, [(2, {'k': 'slot', 't': rng.randrange(nsets)}),
                                             (2, {'k': 'copy', 'as': rng.choice(['list', 'tuple', 'set'])}),
                                             (1, {'k': 'reversed'}), (1, {'k': 'rotated'}),
                                             (1, {'k': 'minus_last'}), (1, {'k': 'plus', 'e': rng.randrange(UNIVERSE_N)}),
                                             (1, {'k': 'list', 'e': rng.sample(range(UNIVERSE_N), rng.randint(0, 3))}),
                                             # things that are no ordered collection of hashable elements: unequal, and
                                             # no exception.  (A sequence that *repeats* an element is read as the ordered
                                             # set of its first occurrences by the implementation; the property does not
                                             # say whether [1, 2, 1] "holds the same elements" as {1, 2}: not generated.)
                                             (0.7, {'k': 'scalar', 'v': rng.choice(['none', 'zero', 'obj', 'unhashable', 'chain'])})])
                    op['reflected'] = rng.random() < 0.2
                    op['neg'] = rng.random() < 0.3
                elif kind == 'cmp':
                    op['t'] = rng.randrange(nsets)
                    op['rel'] = rng.choice(['le', 'lt', 'ge', 'gt', 'disjoint'])
                ops.append(op)
                continue
            if kind == 'binop':
                # operands may be any set (reading is harmless); the result goes to a free slot
                if not free:
                    continue
                op.update(s=rng.randrange(nsets), o=other_operand(0), f=rng.choice(['or', 'and', 'sub', 'xor']),
                          r=rng.choice(free))
                a = list(sets[op['s']])
                b = operand_elems(op['o'])
                res = {'or': a + [x for x in b if x not in a],
                       'and': [x for x in a if x in b],
                       'sub': [x for x in a if x not in b],
                       'xor': [x for x in a if x not in b] + [x for x in b if x not in a]}[op['f']]
                sets[op['r']] = res
                ops.append(op)
                continue
            # mutators of one set: need a set without a live iterator
            if not free:
                continue
            s = rng.choice(free)
            op['s'] = s
            cur = sets[s]
            if kind == 'add':
                # bias to new elements while the set is small
                cand = [e for e in range(UNIVERSE_N) if e not in cur]
                op['e'] = rng.choice(cand) if cand and rng.random() < 0.8 else rng.randrange(UNIVERSE_N)
                if op['e'] not in cur:
                    cur.append(op['e'])
            elif kind in ('discard', 'remove'):
                if cur and (kind == 'remove' or rng.random() < 0.75):
                    op['e'] = rng.choice(cur)
                    cur.remove(op['e'])
                elif kind == 'remove':
                    continue
                else:
                    op['e'] = rng.randrange(UNIVERSE_N)
                    if op['e'] in cur:
                        cur.remove(op['e'])
            elif kind == 'bad_remove':
                cand = [e for e in range(UNIVERSE_N) if e not in cur]
                if not cand:
                    continue
                op.update(op='remove', e=rng.choice(cand), fault='F1')
            elif kind == 'bad_ior':
                # an operand that fails part-way (an unhashable element, or an iterator that raises): the elements
                # before the fault have arrived, the set must stay a consistent set
                els = rng.sample(range(UNIVERSE_N), rng.randint(0, 3))
                op.update(op='ior_fail', e=els, how=rng.choice(['unhashable', 'raising_iterator', 'unhashable_gen']),
                          fault='F1')
                for e in els:
                    if e not in cur:
                        cur.append(e)
            elif kind == 'bad_pop':
                if cur:
                    ops.append({'a': actor, 'op': 'clear', 's': s})
                    del cur[:]
                op.update(op='pop', last=rng.random() < 0.5, fault='F1')
            elif kind == 'pop':
                if not cur:
                    continue
                op['last'] = rng.random() < 0.5
                cur.pop(-1 if op['last'] else 0)
            elif kind == 'clear':
                del cur[:]
            elif kind == 'new':
                op['e'] = rng.sample(range(UNIVERSE_N), rng.randint(0, 5))
                op['via'] = rng.choice(['list', 'tuple', 'gen', 'none'])
                if op['via'] == 'none':
                    op['e'] = []
                sets[s] = list(op['e'])
            else:   # ior iand isub ixor
                o = other_operand(s)
                if o['k'] == 'slot' and rng.random() < 0.1:
                    o['t'] = s                         # aliasing: s op= s
                op['o'] = o
                b = operand_elems(o)
                if kind == 'ior':
                    sets[s] = cur + [x for x in b if x not in cur]
                elif kind == 'iand':
                    sets[s] = [x for x in cur if x in b]
                elif kind == 'isub':
                    sets[s] = [x for x in cur if x not in b]
                else:
                    sets[s] = [x for x in cur if x not in b] + [x for x in b if x not in cur]
            ops.append(op)

        return {'prop': prop, 'engine': self.name, 'seed': seed, 'cfg': cfg, 'ops': ops}

    # ------------------------------------------------------------------- execute
    def execute(self, case):
        import xtuml
        cfg = case['cfg']
        U = make_universe(cfg['universe'])
        classes = {'OrderedSet': xtuml.OrderedSet, 'QuerySet': xtuml.QuerySet}
        nsets = len(cfg['classes'])
        real = [classes[c]() for c in cfg['classes']]
        ref = [[] for _ in range(nsets)]
        iters = {}
        log = Log()
        faults = {}
        probes = {}
        states = set()
        step = -1

        def uidx(x):
            for i, u in enumerate(U):
                if u is x or (type(u) is type(x) and u == x):
                    return i
            return 'foreign:%r' % (x,)

        def render(seq):
            return [uidx(x) for x in seq]

        def bump(d, k, n=1):
            d[k] = d.get(k, 0) + n

        def check_slot(i, where):
            s, r = real[i], ref[i]
            got = list(s)
            if got != r:
                raise Violation('content', 'set %d after %s: real %s, reference %s'
                                % (i, where, render(got), render(r)))
            rev = list(reversed(s))
            if rev != r[::-1]:
                raise Violation('reverse', 'set %d after %s: reversed(real) %s, reference reversed %s'
                                % (i, where, render(rev), render(r[::-1])))
            if len(s) != len(r):
                raise Violation('len', 'set %d after %s: len %d, reference %d' % (i, where, len(s), len(r)))
            if bool(s) != bool(r):
                raise Violation('len', 'set %d after %s: truth value %r' % (i, where, bool(s)))
            for u in U:
                if (u in s) != (u in r):
                    raise Violation('membership', 'set %d after %s: %r in real is %r'
                                    % (i, where, uidx(u), u in s))
            if isinstance(s, xtuml.QuerySet):
                f, l = s.first, s.last
                ef = r[0] if r else None
                el = r[-1] if r else None
                if f is not ef and f != ef or l is not el and l != el:
                    raise Violation('first_last', 'set %d after %s: first/last %r/%r, reference %r/%r'
                                    % (i, where, f, l, ef, el))

        def materialise(o, me):
            '''(real operand, reference element list) for an operand description.'''
            if o['k'] == 'slot':
                t = o['t'] if o['t'] < nsets else me
                return real[t], list(ref[t])
            els = [U[e] for e in o['e']]
            uniq = []
            for e in els:
                if not any(e is u for u in uniq):
                    uniq.append(e)
            if len(uniq) != len(els):
                bump(probes, 'operand_with_duplicates')
            if o['k'] == 'list':
                return list(els), uniq
            if o['k'] == 'tuple':
                return tuple(els), uniq
            return (x for x in list(els)), uniq

        def adopt(i, expected_set, survivors, where):
            '''
            Order not fixed by the statement: check content as a mathematical
            set, no duplicates, survivors in their old relative order; then
            take over the order the implementation shows.
            '''
            got = list(real[i])
            if len(got) != len(set(map(id, got))) and cfg['universe'] == 'obj':
                raise Violation('content', 'set %d after %s holds duplicates: %s' % (i, where, render(got)))
            if sorted(map(str, render(got))) != sorted(map(str, render(expected_set))):
                raise Violation('content', 'set %d after %s: real %s, expected the elements %s'
                                % (i, where, render(got), render(expected_set)))
            if survivors is not None:
                kept = [x for x in got if any(x is y or x == y for y in survivors)]
                if kept != survivors:
                    raise Violation('content', 'set %d after %s: surviving elements reordered: %s, were %s'
                                    % (i, where, render(kept), render(survivors)))
            ref[i] = got

        def invalidate(i):
            for it in [k for k, v in iters.items() if v['s'] == i]:
                iters[it]['dead'] = True

        guard = WallGuard()
        guard.arm(cfg.get('wall_s', self.WALL_S))
        try:
            for step, op in enumerate(case['ops']):
                kind = op['op']
                s = op.get('s')
                if s is not None and s >= nsets:
                    continue
                outcome = None

                if kind == 'iter_open':
                    if any(v['s'] == s and not v.get('dead') for v in iters.values()):
                        continue
                    it = iter(real[s]) if op['dir'] == 'f' else reversed(real[s])
                    snap = list(ref[s]) if op['dir'] == 'f' else list(ref[s])[::-1]
                    iters[op['it']] = {'s': s, 'real': it, 'snap': snap, 'pos': 0}
                    bump(probes, 'iter_open')
                elif kind == 'iter_close':
                    iters.pop(op['it'], None)
                elif kind == 'iter_next':
                    st = iters.get(op['it'])
                    if st is None or st.get('dead'):
                        continue
                    s = st['s']
                    try:
                        got = next(st['real'])
                        done = False
                    except StopIteration:
                        got, done = None, True
                    if st['pos'] >= len(st['snap']) and not done and any(got is e for e in st.get('extra', [])):
                        # an element that was added while the iterator was suspended may be visited (once) or not
                        st['extra'] = [e for e in st['extra'] if e is not got]
                        outcome = 'extra'
                        bump(probes, 'iter_visited_added_element')
                    elif st['pos'] >= len(st['snap']):
                        if not done:
                            raise Violation('iter', 'iterator over set %d yielded %r after all %d elements of '
                                            'its snapshot %s (repeat)' % (s, uidx(got), len(st['snap']), render(st['snap'])))
                        del iters[op['it']]
                        outcome = 'stop'
                        bump(probes, 'iter_exhausted')
                    else:
                        want = st['snap'][st['pos']]
                        if done:
                            raise Violation('iter', 'iterator over set %d stopped after %d of %d elements '
                                            '(skipped %s)' % (s, st['pos'], len(st['snap']), render(st['snap'][st['pos']:])))
                        if got is not want and got != want:
                            raise Violation('iter', 'iterator over set %d yielded %r at position %d, snapshot %s'
                                            % (s, uidx(got), st['pos'], render(st['snap'])))
                        st['pos'] += 1
                        outcome = uidx(got)
                        rm = op.get('rm')
                        if rm:
                            bump(faults, 'F7_iter_remove_current')
                            if rm == 'pop' and ref[s] and ref[s][0] is got:
                                x = real[s].pop(last=False)
                                if x is not got:
                                    raise Violation('outcome', 'pop(last=False) returned %r, first element is %r' % (uidx(x), uidx(got)))
                            elif rm == 'pop' and ref[s] and ref[s][-1] is got:
                                x = real[s].pop()
                                if x is not got:
                                    raise Violation('outcome', 'pop() returned %r, last element is %r' % (uidx(x), uidx(got)))
                            elif rm == 'remove':
                                real[s].remove(got)
                            elif rm == 'isub':
                                real[s] -= [got]
                            else:
                                real[s].discard(got)
                            ref[s] = [x for x in ref[s] if x is not got]
                            if op.get('add') is not None:
                                e = U[op['add']]
                                if e not in ref[s] and e is not got and not (e == got):
                                    real[s].add(e)
                                    ref[s].append(e)
                                    st.setdefault('extra', []).append(e)
                                    bump(faults, 'F7_iter_replace_current')
                elif kind == 'add':
                    invalidate(s)
                    e = U[op['e']]
                    real[s].add(e)
                    if e not in ref[s]:
                        ref[s].append(e)
                elif kind == 'discard':
                    invalidate(s)
                    e = U[op['e']]
                    real[s].discard(e)
                    if e in ref[s]:
                        ref[s].remove(e)
                elif kind == 'remove':
                    e = U[op['e']]
                    if e in ref[s]:
                        invalidate(s)
                        real[s].remove(e)
                        ref[s].remove(e)
                    else:
                        bump(faults, 'F1_remove_missing')
                        try:
                            real[s].remove(e)
                        except KeyError:
                            outcome = 'KeyError'
                        else:
                            raise Violation('outcome', 'remove of the missing element %r from set %d did not raise KeyError'
                                            % (uidx(e), s))
                elif kind == 'pop':
                    last = op.get('last', True)
                    if ref[s]:
                        invalidate(s)
                        want = ref[s].pop(-1 if last else 0)
                        got = real[s].pop(last=last) if not last or op.get('kw') else real[s].pop()
                        if got is not want and got != want:
                            raise Violation('outcome', 'pop(last=%r) on set %d returned %r, reference %r'
                                            % (last, s, uidx(got), uidx(want)))
                        outcome = uidx(got)
                    else:
                        bump(faults, 'F1_pop_empty')
                        try:
                            real[s].pop(last=last)
                        except KeyError:
                            outcome = 'KeyError'
                        else:
                            raise Violation('outcome', 'pop on the empty set %d did not raise KeyError' % s)
                elif kind == 'clear':
                    invalidate(s)
                    real[s].clear()
                    ref[s] = []
                elif kind == 'new':
                    invalidate(s)
                    els = [U[e] for e in op['e']]
                    cls = classes[cfg['classes'][s]]
                    via = op['via']
                    if via == 'none':
                        real[s] = cls()
                    elif via == 'list':
                        real[s] = cls(list(els))
                    elif via == 'tuple':
                        real[s] = cls(tuple(els))
                    else:
                        real[s] = cls(x for x in list(els))
                    ref[s] = list(els)
                elif kind in ('ior', 'iand', 'isub', 'ixor'):
                    invalidate(s)
                    o = op['o']
                    aliased = o['k'] == 'slot' and (o['t'] if o['t'] < nsets else s) == s
                    operand, b = materialise(o, s)
                    a = list(ref[s])
                    before = real[s]
                    if kind == 'ior':
                        real[s] |= operand
                        ref[s] = a + [x for x in b if x not in a]
                    elif kind == 'iand':
                        real[s] &= operand
                        ref[s] = [x for x in a if x in b]
                    elif kind == 'isub':
                        real[s] -= operand
                        ref[s] = [x for x in a if x not in b]
                    else:
                        real[s] ^= operand
                        expected = [x for x in a if x not in b] + [x for x in b if x not in a]
                        adopt(s, expected, [x for x in a if x not in b], 'ixor')
                        bump(probes, 'order_adopted')
                    if real[s] is not before:
                        raise Violation('outcome', 'in-place operator %s rebound set %d to a new object' % (kind, s))
                    if aliased:
                        bump(probes, 'aliased_inplace')
                elif kind == 'ior_fail':
                    invalidate(s)
                    els = [U[e] for e in op['e']]
                    before = real[s]

                    def raising():
                        for x_ in list(els):
                            yield x_
                        raise ValueError('operand exhausted by a fault')
                    if op['how'] == 'unhashable':
                        operand, exc = list(els) + [[]], TypeError
                    elif op['how'] == 'unhashable_gen':
                        operand, exc = (y_ for y_ in list(els) + [{}]), TypeError
                    else:
                        operand, exc = raising(), ValueError
                    bump(faults, 'F1_ior_operand_fails')
                    try:
                        real[s] |= operand
                    except exc:
                        outcome = exc.__name__
                    else:
                        raise Violation('outcome', 'in-place union with a failing operand (%s) did not raise on set %d'
                                        % (op['how'], s))
                    real[s] = before
                    for e in els:
                        if e not in ref[s]:
                            ref[s].append(e)
                elif kind == 'binop':
                    r = op['r']
                    if r >= nsets:
                        continue
                    invalidate(r)
                    operand, b = materialise(op['o'], s)
                    a = list(ref[s])
                    f = op['f']
                    if f == 'or':
                        res = real[s] | operand
                        expected = a + [x for x in b if x not in a]
                    elif f == 'and':
                        res = real[s] & operand
                        expected = [x for x in a if x in b]
                    elif f == 'sub':
                        res = real[s] - operand
                        expected = [x for x in a if x not in b]
                    else:
                        res = real[s] ^ operand
                        expected = [x for x in a if x not in b] + [x for x in b if x not in a]
                    real[r] = res
                    adopt(r, expected, None, 'binary %s' % f)
                    if list(real[s]) != a and r != s:
                        raise Violation('content', 'binary operator %s changed its left operand set %d' % (f, s))
                    bump(probes, 'order_adopted')
                elif kind == 'eq':
                    o = op['o']
                    a = list(ref[s])
                    k = o['k']
                    if k == 'slot':
                        t = o['t'] if o['t'] < nsets else s
                        other, b = real[t], list(ref[t])
                    elif k == 'copy':
                        b = list(a)
                        other = {'list': list, 'tuple': tuple, 'set': type(real[s])}[o['as']](b)
                    elif k == 'reversed':
                        b = a[::-1]
                        other = list(b)
                    elif k == 'rotated':
                        b = a[1:] + a[:1]
                        other = tuple(b)
                    elif k == 'minus_last':
                        b = a[:-1]
                        other = list(b)
                    elif k == 'plus':
                        e = U[o['e']]
                        b = a + [e] if e not in a else a[1:]
                        other = list(b)
                    elif k == 'scalar':
                        b = None
                        # 'chain': a navigation whose trailing () was forgotten -- not a collection either
                        other = {'none': None, 'zero': 0, 'obj': Elem(99), 'unhashable': [[1], [2]],
                                 'chain': None if o['v'] != 'chain' else xtuml.navigate_many(None)}[o['v']]
                    else:
                        b = [U[e] for e in o['e']]
                        other = list(b)
                    want = (a == b)
                    try:
                        if op.get('reflected'):
                            got = (other != real[s]) if op.get('neg') else (other == real[s])
                        else:
                            got = (real[s] != other) if op.get('neg') else (real[s] == other)
                    except TypeError as e:
                        raise Violation('eq', 'set %d %s %s %s raised TypeError: %s'
                                        % (s, render(a), '!=' if op.get('neg') else '==',
                                           render(b) if b is not None else repr(other), e), 'eq:raised')
                    if got is not (not want if op.get('neg') else want):
                        raise Violation('eq', 'set %d %s %s %s evaluated to %r'
                                        % (s, render(a), '!=' if op.get('neg') else '==',
                                           render(b) if b is not None else repr(other), got),
                                        'eq:' + k if k == 'scalar' else None)
                    bump(probes, 'eq_true' if want else 'eq_false')
                    outcome = got
                elif kind == 'cmp':
                    t = op['t']
                    if t >= nsets:
                        continue
                    A, B = set(map(id, ref[s])), set(map(id, ref[t]))
                    if cfg['universe'] != 'obj':
                        A, B = set(ref[s]), set(ref[t])
                    rel = op['rel']
                    want = {'le': A <= B, 'lt': A < B, 'ge': A >= B, 'gt': A > B,
                            'disjoint': not (A & B)}[rel]
                    got = {'le': lambda: real[s] <= real[t], 'lt': lambda: real[s] < real[t],
                           'ge': lambda: real[s] >= real[t], 'gt': lambda: real[s] > real[t],
                           'disjoint': lambda: real[s].isdisjoint(real[t])}[rel]()
                    if bool(got) is not want:
                        raise Violation('cmp', 'set %d %s  %s  set %d %s evaluated to %r'
                                        % (s, render(ref[s]), rel, t, render(ref[t]), got))
                    outcome = bool(got)
                elif kind == 'observe':
                    pass
                else:
                    raise ValueError('unknown op %r' % kind)

                for i in range(nsets):
                    check_slot(i, '%s (step %d)' % (kind, step))
                log.event(step, op.get('a'), kind, outcome, [render(r) for r in ref])
                sig = tuple(tuple(uidx(x) for x in r) for r in ref)
                if any(len(r) >= 2 for r in ref):
                    states.add(stable_hash(sig))
            violation = None
        except Violation as v:
            violation = v.as_dict(step)
            log.event('violation', violation['oracle'], step)
        except SimStall as e:
            violation = Violation('stall', 'operation %r did not return: %s' % (case['ops'][step], e)).as_dict(step)
            log.event('violation', 'stall', step)
        except Exception as e:          # the library raised something the model does not expect
            import traceback
            tb = traceback.extract_tb(e.__traceback__)
            where = '%s:%d' % (tb[-1].filename.rsplit('/', 1)[-1], tb[-1].lineno) if tb else '?'
            violation = Violation('exception', 'unexpected %s: %s at %s in op %r'
                                  % (type(e).__name__, e, where, case['ops'][step] if step >= 0 else None),
                                  'exception:%s' % type(e).__name__).as_dict(step)
            log.event('violation', 'exception', step)

        finally:
            guard.disarm()

        return {'violation': violation, 'digest': log.hexdigest(), 'steps': step + 1,
                'faults': faults, 'probes': probes, 'states': states,
                'nontrivial': bool(states), 'lines': 0}

    def reach_missing(self, prop, tier, probes, faults):
        need = ['F1_remove_missing', 'F1_pop_empty', 'F7_iter_remove_current', 'F1_ior_operand_fails']
        missing = [k for k in need if not faults.get(k)]
        missing += [k for k in ('iter_exhausted', 'order_adopted', 'aliased_inplace', 'eq_true', 'eq_false', 'operand_with_duplicates')
                    if not probes.get(k)]
        return missing


ENGINE = OsetEngine()
