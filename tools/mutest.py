#!/usr/bin/env python3
'''
Sensitivity test: apply a seeded change to /repo, run the owning property's
check, always undo the change.  usage: mutest.py <PROP> <patch> [vcheck args...]
Prints DETECTED (exit 1 with a VIOLATION line) / MISSED (exit 0) / ERROR.
'''
import os
import subprocess
import sys
import time

VERIF = os.path.dirname(os.path.dirname(os.path.abspath(__file__)))
REPO = '/repo'


def main():
    prop, patch = sys.argv[1], os.path.abspath(sys.argv[2])
    extra = sys.argv[3:]
    st = subprocess.run(['git', '-C', REPO, 'status', '--porcelain', '--untracked-files=no'], stdout=subprocess.PIPE,
                        universal_newlines=True).stdout.strip()
    if st:
        print('ERROR: /repo has uncommitted changes:\n' + st)
        return 2
    r = subprocess.run(['git', '-C', REPO, 'apply', patch])
    if r.returncode:
        print('ERROR: patch does not apply')
        return 2
    t0 = time.time()
    try:
        p = subprocess.run([os.path.join(VERIF, 'vcheck'), prop, '--no-evidence', '--no-determinism'] + extra,
                           stdout=subprocess.PIPE, stderr=subprocess.STDOUT, universal_newlines=True, cwd=VERIF)
    finally:
        subprocess.run(['git', '-C', REPO, 'checkout', '--', '.'])
    out = p.stdout
    viol = [l for l in out.splitlines() if l.startswith('VIOLATION')]
    cand = [l for l in out.splitlines() if l.startswith('candidate violation') or l.startswith('  detail')]
    verdict = 'DETECTED' if (p.returncode == 1 and viol) else ('MISSED' if p.returncode == 0 else 'ERROR rc=%d' % p.returncode)
    print('%s %s %s (%.0fs)' % (verdict, prop, os.path.relpath(patch, VERIF) if patch.startswith(VERIF) else patch, time.time() - t0))
    for l in cand[:4]:
        print('   ' + l[:400])
    for l in viol[:3]:
        print('   ' + l)
    if verdict.startswith('ERROR'):
        print(out[-3000:])
    return 0 if verdict == 'DETECTED' else 1


if __name__ == '__main__':
    sys.exit(main())
