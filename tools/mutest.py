#!/usr/bin/env python3
'''
Sensitivity test: apply a seeded change, run the owning property's check, always
undo the change.  usage: mutest.py [--in-repo] <PROP> <patch> [vcheck args...]
By default the change is applied to a scratch git worktree of /repo's HEAD (created
under $TMPDIR and removed afterwards) and the check is pointed at it with VERIF_REPO,
so /repo itself is never touched and several tests can run side by side; with
--in-repo the change is applied to /repo (git apply) and undone (git checkout -- .).
Prints DETECTED (exit 1 with a VIOLATION line) / MISSED (exit 0) / ERROR.
'''
import os
import subprocess
import sys
import time

VERIF = os.path.dirname(os.path.dirname(os.path.abspath(__file__)))
REPO = '/repo'


def main():
    argv = sys.argv[1:]
    in_repo = False
    if argv and argv[0] == '--in-repo':
        in_repo = True
        argv = argv[1:]
    prop, patch = argv[0], os.path.abspath(argv[1])
    extra = argv[2:]
    env = dict(os.environ)
    if in_repo:
        target = REPO
        st = subprocess.run(['git', '-C', REPO, 'status', '--porcelain', '--untracked-files=no'], stdout=subprocess.PIPE,
                            universal_newlines=True).stdout.strip()
        if st:
            print('ERROR: /repo has uncommitted changes:\n' + st)
            return 2
    else:
        import tempfile
        target = tempfile.mkdtemp(prefix='verif-mutwt-')
        os.rmdir(target)
        r = subprocess.run(['git', '-C', REPO, 'worktree', 'add', '-q', '--detach', target, 'HEAD'],
                           stdout=subprocess.PIPE, stderr=subprocess.STDOUT, universal_newlines=True)
        if r.returncode:
            print('ERROR: cannot create scratch worktree: ' + r.stdout)
            return 2
        env['VERIF_REPO'] = target
    t0 = time.time()
    try:
        r = subprocess.run(['git', '-C', target, 'apply', patch])
        if r.returncode:
            print('ERROR: patch does not apply')
            return 2
        p = subprocess.run([os.path.join(VERIF, 'vcheck'), prop, '--no-evidence', '--no-determinism'] + extra,
                           stdout=subprocess.PIPE, stderr=subprocess.STDOUT, universal_newlines=True, cwd=VERIF, env=env)
    finally:
        if in_repo:
            subprocess.run(['git', '-C', REPO, 'checkout', '--', '.'])
        else:
            subprocess.run(['git', '-C', REPO, 'worktree', 'remove', '--force', target],
                           stdout=subprocess.PIPE, stderr=subprocess.STDOUT)
            subprocess.run(['git', '-C', REPO, 'worktree', 'prune'])
    out = p.stdout
    viol = [l for l in out.splitlines() if l.startswith('VIOLATION')]
    cand = [l for l in out.splitlines() if l.startswith('candidate violation') or l.startswith('  detail')]
    verdict = 'DETECTED' if (p.returncode == 1 and viol) else ('MISSED' if p.returncode == 0 else 'ERROR rc=%d' % p.returncode)
    print('%s %s %s (%.0fs)' % (verdict, prop, os.path.relpath(patch, VERIF) if patch.startswith(VERIF) else patch, time.time() - t0))
    for l in cand[:4]:
        print('   ' + l[:400])
    for l in viol[:3]:
        print('   ' + l)
    if verdict.startswith('ERROR'):
        print(out[-3000:])
    return 0 if verdict == 'DETECTED' else 1


if __name__ == '__main__':
    sys.exit(main())
