#!/usr/bin/env python3
'''
Regenerate the replay of a *fixed* finding on the tree just before its fix.

  tools/regen_finding.py <replay path listed in known_findings.json> [--seed N]

A replay names corpus statements and generated populations by index, so it goes
stale when the generator or the corpus grows (DESIGN.md 12.10).  This runs the
owning check against a scratch worktree of HEAD with <commit> reverted (or of
<commit>^ when that does not revert cleanly; VERIF_REPO, /repo is not touched), takes the reported replay whose signature matches the finding's
signature, and writes it over the old file.
'''
import json
import os
import re
import shutil
import subprocess
import sys
import tempfile

VERIF = os.path.dirname(os.path.dirname(os.path.abspath(__file__)))


def main():
    want = sys.argv[1]
    seeds = [sys.argv[3]] if len(sys.argv) > 3 and sys.argv[2] == '--seed' else ['20260924', '1', '2', '3', '4', '5']
    with open(os.path.join(VERIF, 'known_findings.json')) as f:
        entry = [e for e in json.load(f)['findings'] if e['replay'] == want]
    if not entry or entry[0]['status'] != 'fixed':
        print('not a fixed finding: %s' % want)
        return 2
    e = entry[0]
    wt = tempfile.mkdtemp(prefix='verif-regen-')
    os.rmdir(wt)
    # the current tree with only this fix reverted: the other defects of the pre-fix tree do not crowd the report
    subprocess.check_call(['git', '-C', '/repo', 'worktree', 'add', '-q', '--detach', wt, 'HEAD'])
    if subprocess.call(['git', '-C', wt, 'revert', '--no-commit', e['commit']]) != 0:
        subprocess.call(['git', '-C', wt, 'revert', '--abort'])
        subprocess.check_call(['git', '-C', wt, 'checkout', '-q', '--detach', e['commit'] + '^'])
    try:
        for seed in seeds:
            p = subprocess.run([os.path.join(VERIF, 'vcheck'), e['property'], '--seed', seed,
                                '--no-evidence', '--no-determinism'], stdout=subprocess.PIPE, stderr=subprocess.STDOUT,
                               universal_newlines=True, env=dict(os.environ, VERIF_REPO=wt), cwd=VERIF)
            if 'VIOLATION' not in p.stdout:
                print('seed %s: nothing reported:\n%s' % (seed, p.stdout[-800:]))
            for m in re.finditer(r'^VIOLATION property=\S+ replay=(\S+)$', p.stdout, re.M):
                with open(m.group(1)) as f:
                    doc = json.load(f)
                sig = doc['violation'].get('signature') or ''
                print('seed %s: reported %s' % (seed, sig))
                if re.search(e['signature'], sig):
                    shutil.copy(m.group(1), os.path.join(VERIF, want))
                    print('regenerated %s' % want)
                    return 0
        print('no reported violation matches %r' % e['signature'])
        return 1
    finally:
        subprocess.run(['git', '-C', '/repo', 'worktree', 'remove', '--force', wt])
        subprocess.run(['git', '-C', '/repo', 'worktree', 'prune'])


if __name__ == '__main__':
    sys.exit(main())
