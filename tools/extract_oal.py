#!/venv/bin/python
'''
Extracts the OAL bodies of the repository's tests into corpus/oal/ (committed;
run by hand when the repository's samples change).  A docstring is kept when
the current parser accepts it.
'''
import ast
import glob
import hashlib
import os
import re
import sys

HERE = os.path.dirname(os.path.dirname(os.path.abspath(__file__)))
sys.path.insert(0, HERE)
from sim import build
build.prepare()
from bridgepoint import oal

out = os.path.join(HERE, 'corpus', 'oal')
os.makedirs(out, exist_ok=True)
seen = set()
n = 0
bodies = []
for path in sorted(glob.glob('/repo/tests/test_bridgepoint/*.py')):
    tree = ast.parse(open(path, encoding='utf-8').read())
    for node in ast.walk(tree):
        if isinstance(node, (ast.FunctionDef, ast.ClassDef)):
            doc = ast.get_docstring(node, clean=False)
            if doc:
                bodies.append((os.path.basename(path) + ':' + node.name, doc))
    # OAL stored inside SQL strings (Action_Semantics_internal) of embedded models
    text = open(path, encoding='utf-8').read()
    for m in re.finditer(r"'((?:''|[^'])*;(?:''|[^'])*)'", text):
        body = m.group(1).replace("''", "'")
        if '\n' in body or ';' in body:
            bodies.append((os.path.basename(path) + ':sql', body))
for name, body in bodies:
    try:
        oal.parse(body)
    except Exception:
        continue
    if not body.strip():
        continue
    h = hashlib.sha1(body.encode()).hexdigest()[:10]
    if h in seen:
        continue
    seen.add(h)
    with open(os.path.join(out, 'repo_%03d_%s.oal' % (n, h)), 'w', encoding='utf-8') as f:
        f.write(body)
    n += 1
print('%d bodies written to %s' % (n, out))
