#!/usr/bin/env python3
'''Regenerates /verif/MANIFEST.json from the table below (kept valid at all times).'''
import json
import os
import sys

HERE = os.path.dirname(os.path.dirname(os.path.abspath(__file__)))

NA = {
    'C04': 'pure function of (program, initial population): deciding it needs an OAL program generator and a second evaluator (differential testing); the statement contains no schedule, clock, seam, history of calls or fault for a simulator to own',
    'C05': 'pure text -> instances -> text translation round trip over generated programs; no state outlives the call, no I/O, no fault, no interleaving',
    'C06': 'pure text -> instances well-formedness over generated programs; nothing for a scheduler or fault injector to decide',
    'C07': 'pure text -> tree over enumerated/generated trees (bounded enumeration is model checking, generation is property-based testing); the stale-table hazard it mentions is neutralised for every check by importing from a scratch copy with regenerated tables, not claimed as a property',
    'C08': 'metamorphic relation on program text through three pure translations; no schedule, seam or fault',
}

# property -> (engine, category, technique, text, note, design_ref)
CHECKS = {}

PENDING = {}


def check(pid, engine, category, technique, text, note, ref):
    CHECKS[pid] = dict(engine=engine, category=category, technique=technique, text=text,
                       note=note, ref=ref)


check('C17', 'oset', 'exploration',
      'deterministic simulation: seeded interleaved operation histories with live iterators and rejected calls, checked step by step against a list reference model',
      'Seeded search over histories of every OrderedSet/QuerySet operation issued by 1-3 interleaved clients on 2-3 sets, '
      'including iterators suspended between scheduler steps that remove the element just yielded (or replace it: remove it and '
      'add another element, which may be visited once or not at all) and rejected calls that must leave the set unchanged; after every step list, reversed, len, membership, first/last and equality are compared with a '
      'plain-list reference; equality also against operands that are no collection of hashable elements (None, numbers, '
      'instances, lists of lists, a navigation chain), which must compare unequal and return. A clean batch is evidence over '
      'the sampled histories, not a proof.',
      'Trusted: the list reference model, CPython collections.abc mixins. Granularity of interleaving is the API call '
      '(pyxtuml has no threads). Order is compared only where the statement fixes it.',
      'DESIGN.md §4 C17')

STORE_NOTE = ('Trusted: the relational reference model (engines/refstore.py), the handle<->instance map of the harness, CPython. '
              'Interleaving granularity is the API call (pyxtuml has no threads). Single-hop result order and the value of a '
              'referential attribute shared by several associations are compared tolerantly (see DESIGN.md §4). Sampling, not proof.')
STORE_TECH = ('deterministic simulation: seeded interleaved API-call histories by 1-3 logical clients with injected rejected '
              'calls (F1), owned entropy, reference-model comparison of the whole observable state after every step')

check('C02', 'store', 'exploration', STORE_TECH,
      'Seeded histories of new/relate/unrelate/delete in both argument orders, with and without phrase, over every association '
      'shape of the quantifier, with deliberately rejected calls (second partner on a single-valued end, unrelate of an unlinked '
      'pair, unknown association/phrase/class pair, repeated delete). After every call: outcome (return value or exception class) '
      'equals the reference; navigation from both ends of every association for every live instance equals the reference pair set '
      '(hence symmetric, live instances only); every referential attribute reads as a linked identifying value or unset; a rejected '
      'call leaves pools, links, attribute reads and the serialized text unchanged. Key attributes of associations and '
      'identifiers are declared under other spellings than the columns in part of the schemas. 30 % of the histories end with a '
      'relate that names a deleted instance (known finding: it is accepted). The schema may grow in mid-history (two classes, an '
      'association and identifiers defined on the populated metamodel).', STORE_NOTE, 'DESIGN.md §4 C02, §12.13, §12.17')
check('C09', 'store', 'exploration', STORE_TECH,
      'Inside the same histories one client issues select_many/one/any with where_eq, dict filters, lambdas and (reverse_)order_by '
      'in any combination, and navigation chains of length 1-4 from None, an instance, a QuerySet, a list, a generator or a '
      'selection, through association classes and reflexive associations, in nav() and attribute/index syntax, plus '
      'navigate_subtype; results are compared with a relational evaluation by the reference; results held by a client across '
      'other clients\' mutations must keep their content. Attribute lists of populated classes are edited and the schema grows '
      'in mid-history.', STORE_NOTE, 'DESIGN.md §4 C09, §12.17')
check('C10', 'store', 'exploration', STORE_TECH,
      'Histories of attribute writes, reads, deletes, constructor keywords, where_eq filters and class lookups, each under an '
      'independently drawn spelling; after every step every attribute of every live instance is read under every case pattern '
      '(exhaustive for names of up to four letters) and compared with the single value the reference holds, as is the serialized '
      'text; writes to referential attributes must be rejected without effect; referential constructor keywords are spelled '
      'freely as well; one equality filter may name an attribute twice under two spellings. 30 % of the histories end with a keyword spelled exactly like a constructor parameter (kind= / self=; '
      'known finding). The attribute list of a populated class is edited in mid-history (an attribute deleted and another one '
      'inserted, so that the number stays the same; attributes appended; new classes and an association defined).',
      STORE_NOTE, 'DESIGN.md §4 C10, §12.13, §12.17')
check('C11', 'c11', 'exploration',
      'deterministic simulation: two engines share the runs -- seeded API histories with injected rejected calls (store profile, '
      'also starting from loaded populations) and seeded deliveries of populations with duplicate / null / dangling keys as files '
      'on a simulated disk, including in-process runs of both command-line tools; nested-loop counts from the statement as oracle',
      'Even runs: in every state reached by API histories (under-populated ends, null and duplicate identifiers provoked on '
      'purpose, histories that start from a loaded population) check_association_integrity (all / one association), '
      'check_uniqueness_constraint (all / one class), check_subtype_integrity and is_consistent are compared with nested-loop '
      'counts written from the statement; the schema grows in mid-history, after restricted checks have been made. Odd runs: a seeded population with duplicate keys (over-populated ends, only reachable '
      'by loading) is written to the simulated disk in a seeded file order; the same counts are compared on the loaded model, and '
      'xtuml.consistency_check.main, bridgepoint.consistency_check.main and both `python -m` entry points are run in-process on '
      'the files with random -r/-R/-k subsets: return value and exit status (the low eight bits the operating system keeps; some '
      'populations hold a multiple of 256 violations) must match the counts. Where the statement admits two '
      'readings (an instance repeating under two identifiers; the empty string as null of a string identifier) either is accepted.',
      STORE_NOTE, 'DESIGN.md §4 C11, §12.2')
check('C16', 'store', 'exploration', STORE_TECH,
      'Chains and rings of a reflexive conditional 1:1 association arise from relate/unrelate/delete histories in arbitrary '
      'creation order (rejected relates included); after which sets made of whole chains, a single ring, the empty set, or '
      'arbitrary subsets are sorted across either phrase. Oracle: permutation, every chain contiguous from its head along the '
      'opposite phrase, ring once around from the first member; termination by a step meter (sys.monitoring line events) with '
      'a wall-clock backstop that is only believed after confirmation in a fresh process. 4 % of the histories end with a '
      'chain or ring of 1100-2500 instances (created in scrambled order) sorted across both phrases. Half of the sorts are '
      'followed by a second sort of the same QuerySet object after it lost the chain of its first member, got it back at its '
      'end, or had its first member moved to the end.', STORE_NOTE,
      'DESIGN.md §4 C16, §12.14, §12.18')
check('C19', 'store', 'exploration', STORE_TECH,
      'Creation histories with any mix of positional, keyword (any spelling, repeated) and omitted arguments on schemas with all '
      'core types in lower/upper/capitalised type names and a class with an unknown type; uuid generator on a seeded entropy '
      'seam, integer generator, user-defined IdGenerator subclass and plain iterator; interleaved peek/next/next() calls. Every '
      'attribute of the new instance equals the reference (typed default, then positional, then keyword); every defaulted id equals '
      'the next value of the reference generator and is never null; peeking never advances. Attribute lists are edited and the '
      'schema grows between creations.', STORE_NOTE + ' The uuid route owns the entropy at the uuid.uuid4 seam; a library whose '
      'generator does not draw from that seam is judged in an opaque mode (ids as the library hands them out: never null, never '
      'repeated, also after the injected event "the application re-seeds the global PRNG"), in which runs are not replayable by '
      'seed alone.', 'DESIGN.md §4 C19, §12.17')

check('C03', 'delivery', 'exploration',
      'deterministic simulation: seeded delivery plans (reordering, partitioning, routing through string / file object / file / '
      'directory tree with seeded listing order / zip archive on a simulated disk with short reads), reference join by definition, '
      'delivery-invariance over the recorded builds',
      'Per run a seeded schema and population with null, duplicate, dangling and partially matching keys is rendered by an '
      'independent writer and delivered 3-4 times under different plans; each build must link exactly the pairs the definition '
      'gives (nested loops over the rows), read every referential attribute as a linked identifying value, and all builds must '
      'agree; on populations for which the API documents no rejection the same rows created with MetaModel.new (referred rows '
      'first) and with clone must give the same links.',
      'Trusted: the independent renderer and join (engines/sqlgen.py), SimDisk. Instance order inside a pool follows statement '
      'order and is not compared across plans. Two known findings (new() across phrased associations; the cross product the '
      'loader builds across an association without keys) are listed in known_findings.json and reported as KNOWN-FINDING.',
      'DESIGN.md §4 C03, §12.13, §12.14')

check('C12', 'loadfault', 'fault_enumeration',
      'deterministic simulation with fault enumeration: every single-edit fault site (truncate / token delete, duplicate, swap, '
      'class flip / character flip / lost, duplicated, reordered statement) of a stored-text corpus, delivered through string and '
      'file routes of a simulated disk, twin-loader atomicity oracle, metered step budget',
      'For each fault site the damaged chunk (intact statements first, so a half-applied chunk is visible) is fed to a real loader '
      'with history; the call must return or raise ParsingException; after a rejection the loader and a twin that never saw the '
      'chunk must build equal metamodels, again after a common suffix; building accepted text must succeed or raise '
      'ParsingException / MetaException; metered line events must stay within a linear budget. Quick: seeded sample of the sites of '
      'every block (~200 k sites); thorough: every single-fault site of the corpus plus seeded double faults. A fixed list of '
      'about fifty small odd-but-legal texts (reserved python names and names of type attributes as columns, empty and '
      'mismatched key lists, case-colliding columns, wrong lexical classes, out-of-range numbers) goes through the same protocol.',
      'Trusted: the independent tokenizer, the twin-loader construction, the canonical form (engines/sqlgen.py). Faults are '
      'applied to characters, not raw bytes. Regex back-tracking inside C is only visible to the wall-clock backstop.',
      'DESIGN.md §4 C12')

check('C13', 'oalfault', 'fault_enumeration',
      'deterministic simulation with fault enumeration: storage faults (truncate / token delete, duplicate, swap, class flip / '
      'character and whitespace flips / lost delimiters) on every site of a stored OAL corpus, partly end to end through model '
      'files on a simulated disk; totality, metered and wall-clock bounded time, position self-consistency of every returned tree',
      'Claimed narrowly. Sentence 1 (total, bounded) is decided over every single-fault site of the corpus: parse must return a '
      'Node or raise ParseException, within a metered line-event budget, a per-parse wall budget (believed only after '
      'confirmation in a fresh process with three times the budget) and the process watchdog for back-tracking inside C. '
      'Sentence 2 (exact positions) is decided only as self-consistency of every tree these runs return: recorded substring = '
      'text[start:end], line/column recomputed from the offsets, span on token boundaries of an independent tokenizer, span '
      're-parses to a structurally equal node. Generating random layouts of generated programs is a pure-function exercise '
      'outside this technique and is not attempted.',
      'Trusted: the independent tokenizer and offset arithmetic in engines/oalfault.py; the committed corpus (corpus/oal). '
      'Statement and expression nodes only; lines are delimited by \\n.', 'DESIGN.md §4 C13')

check('C18', 'parties', 'exploration',
      'deterministic simulation: seeded interleaving of several parties (one loader, up to four metamodels built from it, 1-2 '
      'mutator clients) with injected rejected inputs; non-interference digests and twin-loader prefix exactness after every step',
      'Every step of a seeded interleaving of input (valid and deliberately rejected chunks, string and file routes), build and '
      'mutation of built metamodels (new, delete, setattr, relate, unrelate, append/delete attribute, define identifier/class, '
      'clone) is followed by a digest of every metamodel taken through the public API: only the addressed one may change; every '
      'build must equal the build of a fresh loader fed exactly the accepted chunks. A third of the builds bring their own id '
      'generator (a build without one must not share a source of ids with any other); a fifth of the histories end with accepted '
      'text that no build can digest, followed by builds that all have to be refused.',
      'Trusted: the canonical form (engines/sqlgen.py). Both oracles are model-free (real twin / before-after digests).',
      'DESIGN.md §4 C18')

check('C01', 'storedisk', 'exploration',
      'deterministic simulation: seeded API histories with checkpoint / crash / restart on a simulated disk below the real io '
      'stack (short writes and reads, random buffer sizes, crash at the n-th raw write, ENOSPC/EIO), reference model that never '
      'restarts, fixed-point check over two restarts',
      'Histories of the store engine over exotic value alphabets and keyword identifiers are interrupted by checkpoints through '
      'each of the six serialization routes (serialize_database, the three serialize parts, persist_database, the three persist '
      'parts in separate files or appended to one file, serialize() dispatch) and restarts through filename_input, file_input, '
      'input and load_metamodel in a seeded file order. After an acknowledged checkpoint + restart the rebuilt metamodel must '
      'equal the reference in classes and attribute types, associations, identifiers, instance order and values (six-decimal '
      'reals, unset = null) and link pairs; checkpoint - restart - checkpoint must reproduce the text. A checkpoint hit by a crash '
      'or I/O error is unacknowledged: its torn file must load or be rejected with ParsingException, and the run goes on in memory. '
      'Between checkpoints the attribute list of a populated class may be edited (attribute deleted, another inserted, every live '
      'instance given a value) and the schema may grow; a quarter of the restarts first feed the loader a torn copy of one of the '
      'files and, when it is rejected, go on with the same loader.',
      STORE_NOTE + ' Persistable domain = states whose referential values resolve (the join of the format reproduces the links); '
      'checkpoints of other states are skipped and counted. The variant without CREATE TABLE statements is not compared. One known '
      'finding (carriage returns through text-mode file routes) is listed in known_findings.json.', 'DESIGN.md §4 C01')

ORDER_TECH = ('deterministic simulation: seeded delivery plans (row permutation x partition x route through string / file / '
              'directory tree / zip on a simulated disk) of real BridgePoint model files, twin oracle (extraction from the natural order)')
ORDER_NOTE = ('NARROW CLAIM: only the clause of the property that says the result does not depend on the order of the rows in the '
              'model files (and on how they are split) is decided, plus that it does not depend on what the process has extracted '
              'before; the mapping itself is a pure function of the model and is not decided by this technique (DESIGN.md §2, '
              '§12.7, §12.13). Corpus: three real models plus seeded extra enumerations / external entities.')
check('C14', 'modelorder', 'exploration', ORDER_TECH,
      'The component built by build_component (classes with attributes in modelled order and core types, identifiers, '
      'associations with key pairs, multiplicity, conditionality, phrases) is compared between the natural row order and 2-3 '
      'seeded deliveries of the same rows (permuted, partitioned, routed through files, directory trees and zip archives). '
      'History oracle: a third of the runs also extract a one-edit variant of the model (a user data type retargeted, an '
      'identifying attribute that other classes refer to retyped, a class moved) in the warm process and with a freshly imported copy of the library (restarted node); both must agree.',
      ORDER_NOTE, 'DESIGN.md §12.7, §12.13')
check('C15', 'modelorder', 'exploration', ORDER_TECH,
      'Enumerator positions and constant values found through Domain.find_symbol are compared between the natural row order and '
      '2-3 seeded deliveries of the same rows, and every enumerator position is compared with the modelled succession order (R56) '
      'computed from the rows by an independent tokenizer; seeded extra enumerations with scrambled enumerator rows are added. '
      'One or two seeded external entities whose equally named bridges return their own constants (drawn per run) are invoked '
      'and compared with the twin and with the constant in each body.',
      ORDER_NOTE + ' Invocation semantics (parameter binding, scopes, return values, derived attributes) are NOT decided.',
      'DESIGN.md §12.7')
check('C20', 'modelorder', 'exploration', ORDER_TECH,
      'The XSD schema built by gen_xsd_schema.build_schema for every component (declarations and attributes as sets, enumerators '
      'in order) is compared between the natural row order and 2-3 seeded deliveries of the same rows. History oracle as '
      'for C14: a one-edit variant extracted by the warm process and by a freshly imported copy of the library.',
      ORDER_NOTE, 'DESIGN.md §12.7, §12.13')


def build():
    sys.path.insert(0, HERE)
    checks = []
    for pid in sorted(CHECKS):
        c = CHECKS[pid]
        checks.append({
            'property_id': pid,
            'quick_cmd': './vcheck %s --tier quick' % pid,
            'thorough_cmd': './vcheck %s --tier thorough' % pid,
            'evidence_file': 'evidence/%s.json' % pid,
            'replay_cmd_template': './vcheck replay {path}',
            'engine': c['engine'],
            'level_claimed': {'category': c['category'], 'text': c['text'], 'design_ref': c['ref']},
            'level_note': c['note'],
            'technique': c['technique'],
        })
    na = [{'property_id': k, 'reason': v} for k, v in sorted(NA.items())]
    for k, v in sorted(PENDING.items()):
        if k not in CHECKS:
            na.append({'property_id': k, 'reason': v})
    na.sort(key=lambda e: e['property_id'])
    engines = {}
    for pid, c in CHECKS.items():
        engines.setdefault(c['engine'], []).append(pid)
    doc = {
        'version': 1,
        'setup_cmd': "/venv/bin/python -c \"import ply, os; assert os.path.isdir('/repo/xtuml') and os.path.isdir('/repo/bridgepoint')\" && mkdir -p out evidence",
        'hooks': {
            'guard': 'LWRIEMEN_PYXTUML_VERIF',
            'enable': 'no hook in /repo is needed: every seam (open, os, zipfile, uuid of the xtuml/bridgepoint modules) is a module '
                      'attribute rebound by the harness on a scratch copy of the working tree; the guard variable is informational',
            'baseline_off_cmd': 'cd /repo && /venv/bin/python -m pytest -q -p no:cacheprovider --timeout=900',
            'source_commits': [],
            'add_only': True,
        },
        'engines': [{'name': n, 'path': {'c11': 'engines/multi.py'}.get(n, 'engines/%s.py' % n), 'serves_properties': sorted(p),
                     'kind_free_text': 'deterministic simulation with fault injection (seeded scheduler + reference model)'}
                    for n, p in sorted(engines.items())],
        'checks': checks,
        'not_applicable': na,
        'notes': 'Entry point ./vcheck; exit 0 held / 1 VIOLATION with confirmed replay / 2 harness error. '
                 'Honours VERIF_SEED, VERIF_TIER, VERIF_JOBS. See DESIGN.md.',
    }
    return doc


if __name__ == '__main__':
    # pending properties are claimed in DESIGN.md but their check is not committed yet
    for pid in ():
        PENDING[pid] = 'simulation target per DESIGN.md; check under construction and not claimed until it is committed'
    doc = build()
    with open(os.path.join(HERE, 'MANIFEST.json'), 'w') as f:
        json.dump(doc, f, indent=1)
        f.write('\n')
    print('MANIFEST.json: %d checks, %d not applicable/pending' % (len(doc['checks']), len(doc['not_applicable'])))
