#!/usr/bin/env python3
'''Regenerates /verif/MANIFEST.json from the table below (kept valid at all times).'''
import json
import os
import sys

HERE = os.path.dirname(os.path.dirname(os.path.abspath(__file__)))

NA = {
    'C04': 'pure function of (program, initial population): deciding it needs an OAL program generator and a second evaluator (differential testing); the statement contains no schedule, clock, seam, history of calls or fault for a simulator to own',
    'C05': 'pure text -> instances -> text translation round trip over generated programs; no state outlives the call, no I/O, no fault, no interleaving',
    'C06': 'pure text -> instances well-formedness over generated programs; nothing for a scheduler or fault injector to decide',
    'C07': 'pure text -> tree over enumerated/generated trees (bounded enumeration is model checking, generation is property-based testing); the stale-table hazard it mentions is neutralised for every check by importing from a scratch copy with regenerated tables, not claimed as a property',
    'C08': 'metamorphic relation on program text through three pure translations; no schedule, seam or fault',
    'C14': 'pure loaded-BridgePoint-model -> component mapping; "edit scripts" enumerate inputs, not a schedule; needs a class-diagram generator and an independent mapper',
    'C15': 'pure call graph -> value; needs the OAL program generator and reference evaluator of C04; no interleaving or fault in the statement',
    'C20': 'pure loaded-BridgePoint-model -> XML tree mapping; edit scripts enumerate inputs; needs a model generator and an independent mapper',
}

# property -> (engine, category, technique, text, note, design_ref)
CHECKS = {}

PENDING = {}


def check(pid, engine, category, technique, text, note, ref):
    CHECKS[pid] = dict(engine=engine, category=category, technique=technique, text=text,
                       note=note, ref=ref)


check('C17', 'oset', 'exploration',
      'deterministic simulation: seeded interleaved operation histories with live iterators and rejected calls, checked step by step against a list reference model',
      'Seeded search over histories of every OrderedSet/QuerySet operation issued by 1-3 interleaved clients on 2-3 sets, '
      'including iterators suspended between scheduler steps that remove the element just yielded and rejected calls that must '
      'leave the set unchanged; after every step list, reversed, len, membership, first/last and equality are compared with a '
      'plain-list reference. A clean batch is evidence over the sampled histories, not a proof.',
      'Trusted: the list reference model, CPython collections.abc mixins. Granularity of interleaving is the API call '
      '(pyxtuml has no threads). Order is compared only where the statement fixes it.',
      'DESIGN.md §4 C17')


def build():
    sys.path.insert(0, HERE)
    checks = []
    for pid in sorted(CHECKS):
        c = CHECKS[pid]
        checks.append({
            'property_id': pid,
            'quick_cmd': './vcheck %s --tier quick' % pid,
            'thorough_cmd': './vcheck %s --tier thorough' % pid,
            'evidence_file': 'evidence/%s.json' % pid,
            'replay_cmd_template': './vcheck replay {path}',
            'engine': c['engine'],
            'level_claimed': {'category': c['category'], 'text': c['text'], 'design_ref': c['ref']},
            'level_note': c['note'],
            'technique': c['technique'],
        })
    na = [{'property_id': k, 'reason': v} for k, v in sorted(NA.items())]
    for k, v in sorted(PENDING.items()):
        if k not in CHECKS:
            na.append({'property_id': k, 'reason': v})
    na.sort(key=lambda e: e['property_id'])
    engines = {}
    for pid, c in CHECKS.items():
        engines.setdefault(c['engine'], []).append(pid)
    doc = {
        'version': 1,
        'setup_cmd': "/venv/bin/python -c \"import ply, os; assert os.path.isdir('/repo/xtuml') and os.path.isdir('/repo/bridgepoint')\" && mkdir -p out evidence",
        'hooks': {
            'guard': 'LWRIEMEN_PYXTUML_VERIF',
            'enable': 'no hook in /repo is needed: every seam (open, os, zipfile, uuid of the xtuml/bridgepoint modules) is a module '
                      'attribute rebound by the harness on a scratch copy of the working tree; the guard variable is informational',
            'baseline_off_cmd': 'cd /repo && /venv/bin/python -m pytest -q -p no:cacheprovider --timeout=900',
            'source_commits': [],
            'add_only': True,
        },
        'engines': [{'name': n, 'path': 'engines/%s.py' % n, 'serves_properties': sorted(p),
                     'kind_free_text': 'deterministic simulation with fault injection (seeded scheduler + reference model)'}
                    for n, p in sorted(engines.items())],
        'checks': checks,
        'not_applicable': na,
        'notes': 'Entry point ./vcheck; exit 0 held / 1 VIOLATION with confirmed replay / 2 harness error. '
                 'Honours VERIF_SEED, VERIF_TIER, VERIF_JOBS. See DESIGN.md.',
    }
    return doc


if __name__ == '__main__':
    # pending properties are claimed in DESIGN.md but their check is not committed yet
    for pid in ('C01', 'C02', 'C03', 'C09', 'C10', 'C11', 'C12', 'C13', 'C16', 'C18', 'C19'):
        PENDING[pid] = 'simulation target per DESIGN.md; check under construction and not claimed until it is committed'
    doc = build()
    with open(os.path.join(HERE, 'MANIFEST.json'), 'w') as f:
        json.dump(doc, f, indent=1)
        f.write('\n')
    print('MANIFEST.json: %d checks, %d not applicable/pending' % (len(doc['checks']), len(doc['not_applicable'])))
