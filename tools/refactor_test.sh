#!/bin/bash
# usage: refactor_test.sh <patch> <props...> : apply a behaviour-preserving refactoring to /repo, run the checks, undo
patch=$1; shift
cd /repo && git status --porcelain --untracked-files=no | grep -q . && { echo "repo dirty"; exit 2; }
git apply "$patch" || { echo "patch does not apply"; exit 2; }
cd /verif
for p in "$@"; do
  out=$(./vcheck $p --no-evidence --no-determinism 2>&1 | grep -v "^KNOWN")
  echo "$p: $(echo "$out" | grep -E "^OK|^VIOLATION|^HARNESS" | head -2 | tr '\n' ' ')"
  echo "$out" | grep -E "candidate|detail" | head -3 | cut -c1-500
done
git -C /repo checkout -- .
