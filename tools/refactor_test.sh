#!/bin/bash
# usage: refactor_test.sh <patch> <props...>
# Applies a behaviour-preserving refactoring to a scratch worktree of /repo (never to /repo itself), points the
# checks at it with VERIF_REPO, expects every check to stay silent (exit 0), removes the worktree.
patch=$(readlink -f "$1"); shift
wt=$(mktemp -d -u /tmp/verif-refwt-XXXXXX)
git -C /repo worktree add -q --detach "$wt" HEAD || exit 2
trap 'git -C /repo worktree remove --force "$wt" >/dev/null 2>&1; git -C /repo worktree prune' EXIT
git -C "$wt" apply "$patch" 2>/dev/null || { echo "patch does not apply"; exit 2; }
cd /verif
rc=0
for p in "$@"; do
  out=$(VERIF_REPO="$wt" ./vcheck $p --no-evidence --no-determinism 2>&1 | grep -v "^KNOWN")
  echo "$p: $(echo "$out" | grep -E "^OK|^VIOLATION|^HARNESS" | head -2 | tr '\n' ' ')"
  echo "$out" | grep -q "^OK" || { rc=1; echo "$out" | grep -E "candidate|detail" | head -3 | cut -c1-500; }
done
exit $rc
