#!/usr/bin/env python3
'''
Confirms a seeded change in its scratch worktree and files it under seeded/<id>/:
 - the patch applies to the worktree's HEAD
 - the unedited test suite passes with it
 - the demonstration fails with it and passes without it
usage: confirm_seed.py <seed id> <property> <worktree> <patch> <demo> "<needs>"
'''
import json
import os
import shutil
import subprocess
import sys

VERIF = os.path.dirname(os.path.dirname(os.path.abspath(__file__)))


def sh(cmd, cwd, timeout=1200):
    p = subprocess.run(cmd, cwd=cwd, shell=True, stdout=subprocess.PIPE, stderr=subprocess.STDOUT,
                       universal_newlines=True, timeout=timeout)
    return p.returncode, p.stdout


def main():
    sid, prop, wt, patch, demo, needs = sys.argv[1:7]
    ran = []
    sh('git checkout -- . && rm -f xtuml/__xtuml_*tab.py bridgepoint/__oal_*tab.py', wt)
    rc, out = sh('git apply %s' % patch, wt)
    ran.append('git apply %s -> %d' % (os.path.basename(patch), rc))
    if rc:
        print('FAIL: patch does not apply\n' + out)
        return 1
    rc, out = sh('timeout 900 /venv/bin/python -m pytest -q -p no:cacheprovider 2>&1 | tail -3', wt)
    tests_ok = ' passed' in out and 'failed' not in out and 'error' not in out.lower()
    ran.append('pytest with change: %s' % out.strip().splitlines()[-1])
    rc_with, out_with = sh('timeout 300 /venv/bin/python %s' % demo, wt)
    ran.append('demo with change -> exit %d' % rc_with)
    sh('git checkout -- . && rm -f xtuml/__xtuml_*tab.py bridgepoint/__oal_*tab.py', wt)
    rc_without, out_without = sh('timeout 300 /venv/bin/python %s' % demo, wt)
    ran.append('demo without change -> exit %d' % rc_without)
    sh('rm -f xtuml/__xtuml_*tab.py bridgepoint/__oal_*tab.py', wt)
    ok = tests_ok and rc_with != 0 and rc_without == 0
    print('%s %s tests_ok=%s demo_with=%d demo_without=%d' % ('CONFIRMED' if ok else 'REJECTED', sid, tests_ok, rc_with, rc_without))
    if not ok:
        print(out[-500:], out_with[-500:], out_without[-500:])
        return 1
    dst = os.path.join(VERIF, 'seeded', sid)
    os.makedirs(dst, exist_ok=True)
    shutil.copy(patch, os.path.join(dst, 'patch.diff'))
    shutil.copy(demo, os.path.join(dst, 'demo.py'))
    meta = {'id': sid, 'property': prop, 'needs_to_manifest': needs, 'confirmed': ran,
            'base_commit': subprocess.run('git rev-parse HEAD', cwd=wt, shell=True, stdout=subprocess.PIPE,
                                          universal_newlines=True).stdout.strip(),
            'origin': 'independent sub-agent given only the property text and a scratch worktree'}
    with open(os.path.join(dst, 'meta.json'), 'w') as f:
        json.dump(meta, f, indent=1)
    return 0


if __name__ == '__main__':
    sys.exit(main())
